package main

// C13 / sighuppipe — SIGHUP handling of the real registration server with a harness-owned "reload in
// progress" window, no hook: PHANTOM_SUBNET_LOCATION (read from the environment at every reload)
// points to a named pipe. A reload that opens it blocks until the harness opens the write end;
// opening the write end with O_NONBLOCK succeeds exactly when a reload waits there (ENXIO otherwise),
// which both detects the reload deterministically and attaches the harness as its writer. The reload
// stays in progress until the harness feeds a file version into the pipe.
//
// A history is a list of actions of one operator/client driver:
//
//	hup       a new version of the subnet file exists; SIGHUP
//	hupgen    the same, and the ClientConf generation goes up by one (the new file version contains
//	          all generations up to the new one, the old one does not contain the new generation)
//	hupgenonly  the generation goes up by one and the new file version contains ONLY the new generation
//	hupretire   no new generation, but the new file version contains only the newest one (older retired)
//	hup2      two new versions and two SIGHUPs back to back
//	feed      the reload in progress (if any) reads the version that was newest when the harness
//	          attached to it, and completes
//	feedbad   it reads garbage instead
//	feedempty it reads a file that parses but defines no usable generation: registrations may be
//	          refused (500) from then until a valid version has been read and is served
//	req-old / req-cur / req-v4 / req-v6
//	          one registration: dual-stack from a client on generation 1 / dual-stack from a client
//	          on the generation of the installed version / IPv4 only / IPv6 only
//
// Before every action the driver attaches to a reload that has started (waiting for it if a SIGHUP
// is outstanding), so "SIGHUP while reloading" and "request while reloading" are exact.
//
// Oracle: (a) every request is answered 200, wholly from one file version, not older than one that
// was already seen and not newer than the last one fed; (b) every SIGHUP is followed by a reload that
// starts after it (a reload that was already in progress does not count; two pending SIGHUPs may
// share one reload): if none starts within c13pPatience while the process is idle, a further SIGHUP
// tells a lost signal (sighup:signal-lost, a reload starts now) from a dead handler
// (sighup:reload-never-completed); a fed valid version is served afterwards; at the end the newest
// version is served. No verdict depends on how fast anything happens.

import (
	"errors"
	"fmt"
	"os"
	"path/filepath"
	"sync"
	"sync/atomic"
	"syscall"
	"testing"
	"time"
	"unsafe"

	pb "github.com/refraction-networking/conjure/proto"
	"google.golang.org/protobuf/proto"
	"pgregory.net/rapid"
	"verif/harness/vh"
)

const c13pPatience = 20 * time.Second

var c13pKinds = []string{"hup", "hupgen", "hupgenonly", "hupretire", "hup2", "feed", "feedbad", "feedempty", "req-old", "req-cur", "req-v4", "req-v6"}

type c13pCase struct {
	Steps []string `json:"steps"` // the whole history since this sub-check took over the registrar
}

type c13pDrv struct {
	s    *c13hSrv
	fifo string

	newest   int64            // newest file version that exists
	genOf    map[int64]uint32 // newest generation contained in a version
	genMin   map[int64]uint32 // oldest generation contained in a version
	curMin   uint32           // oldest generation in the newest version
	base     uint32           // generation in force when this sub-check took over
	genDisk  uint32           // generation of the ClientConf on disk
	w        *os.File         // write end while attached to a reload in progress
	obs      int64            // version that was newest when the harness attached
	owed     bool             // a SIGHUP was sent and no reload has started since
	owedBusy bool             // ... and it was sent while a reload was in progress
	lo       atomic.Int64     // newest version seen in an answer
	hi       atomic.Int64     // newest valid version fed
	classes  map[string]bool
	mu       sync.Mutex // genOf is read by the request loop
}

func (d *c13pDrv) gen(v int64) uint32 {
	d.mu.Lock()
	defer d.mu.Unlock()
	if g, ok := d.genOf[v]; ok {
		return g
	}
	return d.base
}

func (d *c13pDrv) min(v int64) uint32 {
	d.mu.Lock()
	defer d.mu.Unlock()
	if g, ok := d.genMin[v]; ok {
		return g
	}
	return d.base
}

// probe attaches to a reload that waits at the pipe. Non-blocking.
func (d *c13pDrv) probe() (bool, string) {
	if d.w != nil {
		return true, ""
	}
	f, err := os.OpenFile(d.fifo, os.O_WRONLY|syscall.O_NONBLOCK, 0)
	if err != nil {
		if errors.Is(err, syscall.ENXIO) {
			return false, ""
		}
		return false, "open pipe: " + err.Error()
	}
	d.w, d.obs = f, d.newest
	if d.owed && d.owedBusy {
		d.classes["reload-for-sighup-that-arrived-during-a-reload"] = true
	}
	d.owed, d.owedBusy = false, false
	return true, ""
}

// await waits for a reload to start. ok=false after c13pPatience.
func (d *c13pDrv) await() (ok bool, harness string) {
	deadline := time.Now().Add(c13pPatience)
	for {
		ok, h := d.probe()
		if ok || h != "" {
			return ok, h
		}
		if time.Now().After(deadline) {
			return false, ""
		}
		time.Sleep(200 * time.Microsecond)
	}
}

// sync is run before every action: attach to a reload if one has started; wait for it if one is owed.
func (d *c13pDrv) sync() (*c13hViol, string) {
	if d.w != nil {
		return nil, ""
	}
	if !d.owed {
		_, h := d.probe()
		return nil, h
	}
	busy := d.owedBusy
	ok, h := d.await()
	if ok || h != "" {
		return nil, h
	}
	// No reload has started although a SIGHUP is outstanding and the process is idle. One more
	// SIGHUP tells a lost signal from a handler that is gone.
	d.s.sighup()
	ok, h = d.await()
	if h != "" {
		return nil, h
	}
	if ok {
		how := "while no reload was in progress"
		if busy {
			how = "while the previous reload was still in progress"
		}
		return &c13hViol{"sighup:signal-lost", fmt.Sprintf("a SIGHUP sent %s was never followed by a reload: no read of the phantom subnet file within %v (process idle, version %d waiting, version %d installed); a further SIGHUP did start one, so the handler is alive and the signal was lost", how, c13pPatience, d.newest, d.lo.Load())}, ""
	}
	return &c13hViol{"sighup:reload-never-completed", fmt.Sprintf("SIGHUP is no longer followed by a reload: no read of the phantom subnet file within %v after each of two SIGHUPs (process idle, version %d waiting, version %d installed). Registrar log tail: %q", c13pPatience, d.newest, d.lo.Load(), d.s.logs.tail(300))}, ""
}

// readerGone waits until the registrar has closed its end of the pipe (it is in this process, so its
// descriptor shows in /proc/self/fd). Only then can a new attach not hit the old reader.
func (d *c13pDrv) readerGone() string {
	deadline := time.Now().Add(c13hReqTimeout)
	for {
		open := false
		ents, err := os.ReadDir("/proc/self/fd")
		if err != nil {
			return err.Error()
		}
		for _, e := range ents {
			if l, err := os.Readlink(filepath.Join("/proc/self/fd", e.Name())); err == nil && l == d.fifo {
				open = true
			}
		}
		if !open {
			return ""
		}
		if time.Now().After(deadline) {
			return "the registrar keeps the subnet pipe open after it was fed"
		}
		time.Sleep(200 * time.Microsecond)
	}
}

// deliver writes one file content into the pipe, waits until the reload has read all of it (FIONREAD
// on the pipe is 0: only then does the registrar certainly hold a descriptor that /proc/self/fd
// shows), closes the write end (end of file for the reload) and waits until the registrar has closed
// its end. Without the first wait a new attach could hit the old reader before it has seen the end
// of its file, and two contents would be read as one.
func (d *c13pDrv) deliver(w *os.File, content []byte) string {
	if len(content) == 0 {
		content = []byte("\n")
	}
	if _, err := w.Write(content); err != nil {
		w.Close()
		return "write pipe: " + err.Error()
	}
	rc, err := w.SyscallConn()
	if err != nil {
		w.Close()
		return err.Error()
	}
	deadline := time.Now().Add(c13hReqTimeout)
	for {
		var unread int32 = -1
		var ierr syscall.Errno
		if err := rc.Control(func(fd uintptr) {
			_, _, ierr = syscall.Syscall(syscall.SYS_IOCTL, fd, 0x541B /* FIONREAD */, uintptr(unsafe.Pointer(&unread)))
		}); err != nil || ierr != 0 {
			w.Close()
			return fmt.Sprintf("FIONREAD on the pipe: %v %v", err, ierr)
		}
		if unread == 0 {
			break
		}
		if time.Now().After(deadline) {
			w.Close()
			return "the reload in progress does not read the subnet pipe"
		}
		time.Sleep(100 * time.Microsecond)
	}
	if err := w.Close(); err != nil {
		return "close pipe: " + err.Error()
	}
	return d.readerGone()
}

func (d *c13pDrv) hup(bump, only bool) string {
	d.newest = d.s.seq.Add(1)
	g := d.genDisk
	if bump {
		g++
		cc, _ := proto.Marshal(&pb.ClientConf{Generation: proto.Uint32(g)})
		if err := c13hWrite(d.s.ccPath, cc); err != nil {
			return err.Error()
		}
		d.s.cc = cc
		d.s.curGen.Store(g)
		d.genDisk = g
		d.classes["generation-bump"] = true
	}
	if only {
		if d.curMin < g {
			d.classes["generations-retired"] = true
		}
		d.curMin = g
	}
	d.mu.Lock()
	d.genOf[d.newest] = g
	d.genMin[d.newest] = d.curMin
	d.mu.Unlock()
	if d.w != nil {
		d.classes["sighup-while-reloading"] = true
		if !d.owed {
			d.owedBusy = true
		}
	} else if !d.owed {
		d.owedBusy = false
	}
	d.owed = true
	d.s.sighup()
	return ""
}

// one registration by the driver, judged against the window of versions.
func (d *c13pDrv) request(kind string, gen uint32, where string) (*c13hViol, string) {
	lo := d.lo.Load()
	set, key, msg := d.s.registerGen(kind, gen)
	hi := d.hi.Load()
	if key != "" {
		return d.s.judge(where, key, msg)
	}
	if set == c13hRefused {
		return nil, ""
	}
	if set < lo || set > hi {
		return &c13hViol{"sighup:stale-set", fmt.Sprintf("%s: a %s registration (client generation %d) was answered from file version %d although version %d had already been served and version %d is the newest one fed", where, kind, gen, set, lo, hi)}, ""
	}
	d.raiseLo(set)
	return nil, ""
}

func (d *c13pDrv) raiseLo(set int64) {
	for {
		cur := d.lo.Load()
		if set <= cur || d.lo.CompareAndSwap(cur, set) {
			return
		}
	}
}

func (d *c13pDrv) feedEmpty() (*c13hViol, string) {
	if d.w == nil {
		return nil, ""
	}
	w := d.w
	d.w = nil
	d.s.mayEmpty.Store(true)
	d.classes["fed-empty"] = true
	content := c13hEmptyFiles[int(d.s.emptyN.Add(1))%len(c13hEmptyFiles)]
	return nil, d.deliver(w, []byte(content))
}

func (d *c13pDrv) feed(bad bool) (*c13hViol, string) {
	if d.w == nil {
		return nil, ""
	}
	// garbage also while the reload in progress would carry a generation the installed set lacks: a
	// failed reload must change nothing, the ClientConf generation included (VERIF_C13_NOBADBUMP=1
	// restores the restriction the check had before the handler was repaired)
	if bad && d.genDisk != d.gen(d.lo.Load()) && os.Getenv("VERIF_C13_NOBADBUMP") != "" {
		bad = false
	}
	w, v := d.w, d.obs
	d.w = nil
	content := c13hSubnetsR(v, d.min(v), d.gen(v))
	nErr := d.s.logs.count("failed to reload phantom subnets")
	if bad {
		content = []byte("[Networks\n  this is = = not toml ]]\n")
		d.classes["fed-garbage"] = true
	} else {
		d.classes["fed-valid"] = true
		if v > d.hi.Load() {
			d.hi.Store(v)
		}
		if d.min(v) > 1 {
			// Generation-1 clients are answered from this version only once the ClientConf that goes
			// with it has been republished (see mayLag). The flag must be up BEFORE the reload can
			// read the file: the request loop judges a refusal by the flag as it was before and after
			// its request, and the swap happens inside deliver.
			d.s.mayLag.Store(true)
		}
	}
	if h := d.deliver(w, content); h != "" {
		return nil, h
	}
	if bad {
		// auxiliary only: give the handler a bounded moment to report
		for dl := time.Now().Add(c13hLogWait); d.s.logs.count("failed to reload phantom subnets") == nErr && time.Now().Before(dl); {
			time.Sleep(time.Millisecond)
		}
	} else if v > d.lo.Load() || d.s.mayEmpty.Load() || d.s.mayLag.Load() {
		return d.served(v)
	}
	return nil, ""
}

// served waits until an outdated (generation 1) client is answered from file version v or a newer
// one. Reloads that start meanwhile are fed as well: one that had read the ClientConf before it was
// replaced publishes the old one, and only the reload after it puts things right.
func (d *c13pDrv) served(v int64) (*c13hViol, string) {
	start := time.Now()
	for polls := 0; ; polls++ {
		if ok, h := d.probe(); h != "" {
			return nil, h
		} else if ok {
			w, v2 := d.w, d.obs
			d.w = nil
			d.classes["fed-valid"] = true
			if v2 > d.hi.Load() {
				d.hi.Store(v2)
			}
			if d.min(v2) > 1 {
				d.s.mayLag.Store(true)
			}
			if h := d.deliver(w, c13hSubnetsR(v2, d.min(v2), d.gen(v2))); h != "" {
				return nil, h
			}
			if v2 > v {
				v = v2
			}
		}
		lo0 := d.lo.Load()
		set, key, msg := d.s.registerGen("dual", 1)
		if key != "" {
			return d.s.judge("after a reload read file version "+fmt.Sprint(v), key, msg)
		}
		if set != c13hRefused {
			if set < lo0 || set > d.hi.Load() {
				return &c13hViol{"sighup:stale-set", fmt.Sprintf("after a reload read file version %d a registration was answered from version %d (version %d had already been served)", v, set, lo0)}, ""
			}
			d.raiseLo(set)
			if set >= v {
				// a valid version is served again, to outdated clients too
				d.s.mayEmpty.Store(false)
				d.s.mayLag.Store(false)
			}
		}
		if d.lo.Load() >= v && !d.s.mayEmpty.Load() && !d.s.mayLag.Load() {
			return nil, ""
		}
		// patience is time AND work: the registrar must have answered a thousand registrations of
		// this loop meanwhile, so a machine too busy to run it never produces a verdict
		if time.Since(start) > c13pPatience && polls >= 1000 {
			if set == c13hRefused && d.s.mayLag.Load() {
				// clients of the newest generation tell whether the subnets were reloaded
				if cs, ck, _ := d.s.registerGen("dual", d.gen(v)); ck == "" && cs >= v {
					return &c13hViol{"sighup:outdated-clients-refused", fmt.Sprintf("file version %d (generations %d..%d only, ClientConf generation %d) was read by a reload and is served to generation-%d clients, but %v later (process idle, every reload that started meanwhile was fed as well) generation-1 clients are still refused with HTTP 500: the new ClientConf was never republished to the registrar, which therefore does not move outdated clients to the new generation. Registrar log tail: %q",
						v, d.min(v), d.gen(v), d.genDisk, d.gen(v), c13pPatience, d.s.logs.tail(300))}, ""
				}
			}
			return &c13hViol{"sighup:reload-never-completed", fmt.Sprintf("a reload read the valid file version %d completely, but %v later registrations are still answered from version %d (last answer: set %d, where %d means refused with HTTP 500). Registrar log tail: %q", v, c13pPatience, d.lo.Load(), set, c13hRefused, d.s.logs.tail(400))}, ""
		}
		time.Sleep(500 * time.Microsecond)
	}
}

func (d *c13pDrv) act(kind string) (*c13hViol, string) {
	if v, h := d.sync(); v != nil || h != "" {
		return v, h
	}
	during := ""
	if d.w != nil {
		during = " during a reload"
		if len(kind) > 4 && kind[:4] == "req-" {
			d.classes["request-during-reload"] = true
		}
	}
	switch kind {
	case "hup":
		return nil, d.hup(false, false)
	case "hupgen":
		return nil, d.hup(true, false)
	case "hupgenonly":
		return nil, d.hup(true, true)
	case "hupretire":
		return nil, d.hup(false, true)
	case "hup2":
		if h := d.hup(false, false); h != "" {
			return nil, h
		}
		return nil, d.hup(false, false)
	case "feed":
		return d.feed(false)
	case "feedbad":
		return d.feed(true)
	case "feedempty":
		return d.feedEmpty()
	case "req-old":
		if d.w != nil && d.genDisk > d.gen(d.lo.Load()) {
			d.classes["old-client-during-generation-rollout"] = true
		}
		return d.request("dual", 1, "request of an old-generation client"+during)
	case "req-cur":
		return d.request("dual", d.gen(d.lo.Load()), "request of a current-generation client"+during)
	case "req-v4":
		return d.request("v4", 1, "IPv4-only request"+during)
	case "req-v6":
		return d.request("v6", d.gen(d.lo.Load()), "IPv6-only request"+during)
	}
	return nil, "unknown action " + kind
}

// finish feeds every reload that is owed or still comes and checks that the newest version ends up
// being served; then hands the registrar back with an ordinary subnet file.
func (d *c13pDrv) finish() (*c13hViol, string) {
	for round := 0; ; round++ {
		if round > 64 {
			return nil, "reloads keep starting although no SIGHUP is sent"
		}
		if v, h := d.sync(); v != nil || h != "" {
			return v, h
		}
		if d.w == nil {
			if d.lo.Load() == d.newest && !d.s.mayEmpty.Load() && !d.s.mayLag.Load() {
				break
			}
			// the newest version was never read (its reload read garbage): the operator signals again
			d.owed, d.owedBusy = true, false
			d.s.sighup()
			continue
		}
		if v, h := d.feed(false); v != nil || h != "" {
			return v, h
		}
	}
	if err := c13hWrite(d.s.subnetPath, c13hSubnetsR(d.newest, d.gen(d.newest), d.gen(d.newest))); err != nil {
		return nil, err.Error()
	}
	os.Setenv("PHANTOM_SUBNET_LOCATION", d.s.subnetPath)
	// a reload that read the environment before this point may still arrive at the pipe
	for dl := time.Now().Add(300 * time.Millisecond); time.Now().Before(dl); time.Sleep(5 * time.Millisecond) {
		if ok, _ := d.probe(); ok {
			if v, h := d.feed(false); v != nil || h != "" {
				return v, h
			}
		}
	}
	d.s.confirmed.Store(d.newest)
	return nil, ""
}

func TestVerif_C13_sighuppipe(t *testing.T) {
	rec := vh.NewRec("C13", "sighuppipe", "the real main() of cmd/registration-server (the one registrar of the process) with a named pipe as PHANTOM_SUBNET_LOCATION, so that a reload stays in progress until the harness feeds it; one long history over {hup, hupgen (ClientConf generation +1), hup2, feed, feedbad, req-old, req-cur, req-v4, req-v6}: a de Bruijn sequence (quick: every ordered triple, thorough: every ordered quadruple) and a rapid-drawn tail, with one request loop running throughout; one evaluation = one action (with the whole history before it); non-trivial = a SIGHUP or a request that happens while a reload is in progress; distinct by history prefix")
	defer rec.Flush()
	var hist []string
	if vh.ReplayFile() != "" {
		var c c13pCase
		if _, _, err := vh.LoadReplay(vh.ReplayFile(), &c); err != nil {
			t.Fatal(err)
		}
		hist = c.Steps
	} else {
		rec.Require("sighup-while-reloading", "reload-for-sighup-that-arrived-during-a-reload", "request-during-reload", "old-client-during-generation-rollout", "generation-bump", "generations-retired", "fed-valid", "fed-garbage", "fed-empty", "concurrent-requests")
		shard, _ := vh.Shard()
		for _, x := range c13hDeBruijn(len(c13pKinds), vh.Pick(3, 4)) {
			hist = append(hist, c13pKinds[x])
		}
		if shard%2 == 1 {
			for i, j := 0, len(hist)-1; i < j; i, j = i+1, j-1 {
				hist[i], hist[j] = hist[j], hist[i]
			}
		}
		tail := rapid.SliceOfN(rapid.SampledFrom(c13pKinds), vh.Pick(300, 3000), vh.Pick(300, 3000)).Example(int(vh.Seed())*1000 + 500 + shard)
		hist = append(hist, tail...)
	}

	s := c13hStart(t)
	rec.Class(s.startMode)
	// take over: all files fine, ClientConf generation 1, the environment points to the pipe
	d := &c13pDrv{s: s, fifo: filepath.Join(s.dir, "phantom_subnets.pipe"), genOf: map[int64]uint32{}, genMin: map[int64]uint32{}, genDisk: s.curGen.Load(), curMin: s.curGen.Load(), base: s.curGen.Load(), classes: map[string]bool{}}
	_ = os.Remove(d.fifo)
	if err := syscall.Mkfifo(d.fifo, 0o600); err != nil {
		t.Fatalf("harness problem: mkfifo: %v", err)
	}
	if p, err := filepath.EvalSymlinks(d.fifo); err == nil {
		d.fifo = p // the form in which /proc/self/fd shows it
	}
	for p, b := range map[string][]byte{s.confPath: s.confText, s.ccPath: s.cc} {
		if err := c13hWrite(p, b); err != nil {
			t.Fatalf("harness problem: %v", err)
		}
	}
	d.newest = s.seq.Load()
	d.lo.Store(s.confirmed.Load())
	d.hi.Store(s.seq.Load())
	os.Setenv("PHANTOM_SUBNET_LOCATION", d.fifo)

	var (
		stop  atomic.Bool
		wg    sync.WaitGroup
		nReq  atomic.Int64
		wviol = make(chan c13hViol, 4)
		wharn = make(chan string, 4)
	)
	wg.Add(1)
	go func() {
		defer wg.Done()
		for i := 0; !stop.Load(); i++ {
			kind := []string{"dual", "v4", "v6"}[i%3]
			gen := uint32(1)
			if i%2 == 1 {
				gen = d.gen(d.lo.Load())
			}
			v, h := d.request(kind, gen, "request loop")
			nReq.Add(1)
			if v != nil {
				wviol <- *v
				return
			}
			if h != "" {
				wharn <- h
				return
			}
			time.Sleep(time.Millisecond)
		}
	}()
	done := func() {
		stop.Store(true)
		wg.Wait()
		rec.ClassN("concurrent-requests", nReq.Load())
	}
	report := func(i int, kind string, v *c13hViol, harness string) bool {
		if v == nil && harness == "" {
			select {
			case x := <-wviol:
				v = &x
			case harness = <-wharn:
			default:
			}
		}
		if harness != "" {
			done()
			t.Fatalf("harness problem: action %d (%s): %s", i, kind, harness)
		}
		if v != nil {
			done()
			c := c13pCase{Steps: hist[:c13pMin(i+1, len(hist))]}
			rec.Violation(t, v.key, c, "action %d (%s) of history %v: %s", i, kind, c13hShort(c.Steps), v.msg)
			return true
		}
		return false
	}
	for i, kind := range hist {
		busy := d.w != nil
		v, harness := d.act(kind)
		var cl []string
		for k := range d.classes {
			cl = append(cl, k)
		}
		d.classes = map[string]bool{}
		nontriv := (busy || d.w != nil) && kind != "feed" && kind != "feedbad" && kind != "feedempty"
		rec.Case(nontriv, vh.Digest(c13pCase{Steps: hist[:i+1]}), c13pCase{Steps: append([]string{"..."}, hist[c13hMax0(i-4):i+1]...)}, cl...)
		if report(i, kind, v, harness) {
			return
		}
	}
	v, harness := d.finish()
	for k := range d.classes {
		rec.Class(k)
	}
	if report(len(hist), "end of history: every outstanding reload is fed, the newest version must be served", v, harness) {
		return
	}
	done()
}

func c13pMin(a, b int) int {
	if a < b {
		return a
	}
	return b
}
