package main

// C13 / sighup — the SIGHUP path of the real registration server.
//
// The real main() is started ONCE per test process (API registrar only, ZMQ auth NULL, free ports,
// all files in a temp dir) and is left running until the process exits (it cannot be stopped). The
// harness then plays a HISTORY of operator steps against it. Every step puts the files into a state,
// sends SIGHUP to the own pid and observes - through real HTTP registrations - from which subnet
// set the registrar answers:
//
//	valid       everything repaired, phantom subnet file = a fresh set (disjoint from all earlier ones)
//	badsubnets  phantom subnet file is not TOML                  (ReloadSubnets fails)
//	nosubnets   phantom subnet file is missing                   (ReloadSubnets fails)
//	badconf     registrar config is not TOML                     (loadConfig fails)
//	nocc        the ClientConf named by the config is missing    (loadConfig fails)
//	badcc       the ClientConf is not a protobuf                 (loadConfig fails)
//	rollout     like valid, and the ClientConf generation goes up by one while the subnet file contains
//	            ONLY the new generation (the old one is retired). The requests of this harness come
//	            from generation-1 clients: they are answered only because the registrar, once the new
//	            ClientConf has been republished to it, moves outdated clients to the newest generation
//	emptysubnets  the phantom subnet file parses but defines no usable generation (0 bytes / no
//	            Networks table / empty table / truncated mid-table): the unchanged tree installs it and
//	            answers 500 quickly until the next good reload; keeping the old set is accepted too.
//	            What matters: every request completes and later reloads complete
//
// Oracle: after a valid step registrations are eventually answered from the new set. "Never" is only
// concluded after c13hPatience with SIGHUP re-sent several times while the process is otherwise
// idle (key sighup:reload-never-completed). After a failing step the old set stays and the registrar
// keeps answering. Two request loops run during the whole history; every request must be answered
// (HTTP 200), wholly from one set, and that set must be one that was installed or written while the
// request ran. No decision depends on how quickly anything happens.
//
// The history is one long sequence per process because state carries over (that is the point:
// whether a reload completes must not depend on what happened before). Quick: a de Bruijn sequence
// containing every ordered triple of step kinds, then a rapid-drawn tail; thorough: every ordered
// quadruple and a longer tail. A violation file holds the history from process start up to the failing
// step; --replay plays it in a fresh process.

import (
	"bytes"
	"crypto/rand"
	"encoding/binary"
	"fmt"
	"io"
	"net"
	"net/http"
	"os"
	"path/filepath"
	"runtime"
	"strings"
	"sync"
	"sync/atomic"
	"syscall"
	"testing"
	"time"

	pb "github.com/refraction-networking/conjure/proto"
	log "github.com/sirupsen/logrus"
	"google.golang.org/protobuf/proto"
	"pgregory.net/rapid"
	"verif/harness/vh"
)

const (
	c13hPatience   = 20 * time.Second // how long "still the old set" is tolerated after a valid step
	c13hResend     = 2 * time.Second  // SIGHUP is sent again this often while waiting
	c13hStartup    = 60 * time.Second // harness wait for main() to come up
	c13hReqTimeout = 45 * time.Second // one HTTP registration; expiry alone is never a verdict
	c13hLogWait    = 1 * time.Second  // bounded wait for the failure log line after a failing step (no verdict)
)

var c13hKinds = []string{"valid", "badsubnets", "nosubnets", "badconf", "nocc", "badcc", "emptysubnets", "rollout"}

// subnet files that are valid TOML but define no usable generation (what a reload sees while the
// file is being rewritten). The unchanged tree installs them and refuses registrations until the next
// good reload; refusing the file and keeping the old set is accepted as well.
var c13hEmptyFiles = []string{
	"",
	"# being rewritten\ntitle = \"phantom subnets\"\n",
	"[Networks]\n",
	"[Networks]\n    [Networks.1]\n        Generation = 1\n        [[Networks.1.WeightedSubnets]]\n            Weight = 1\n",
}

const c13hRefused = int64(-3) // "set" of a registration that was refused while an empty file may be in force

type c13hCase struct {
	Steps []string `json:"steps"` // the whole history since the registrar was started
}

type c13hLog struct {
	mu  sync.Mutex
	buf bytes.Buffer
}

func (l *c13hLog) Write(b []byte) (int, error) {
	l.mu.Lock()
	defer l.mu.Unlock()
	if l.buf.Len() > 4<<20 {
		l.buf.Reset()
	}
	return l.buf.Write(b)
}

func (l *c13hLog) count(s string) int {
	l.mu.Lock()
	defer l.mu.Unlock()
	return strings.Count(l.buf.String(), s)
}

func (l *c13hLog) tail(n int) string {
	l.mu.Lock()
	defer l.mu.Unlock()
	s := l.buf.String()
	if len(s) > n {
		s = s[len(s)-n:]
	}
	return s
}

type c13hSrv struct {
	dir, subnetPath, ccPath, confPath, keyPath string
	apiPort, zmqPort                           int
	confText                                   []byte
	cc                                         []byte
	logs                                       *c13hLog
	client                                     *http.Client
	fatal                                      atomic.Value // string: main() called log.Fatal
	mainDone                                   chan struct{}
	startMode                                  string

	mayEmpty     atomic.Bool  // a file without usable generations was offered and no good reload was seen since
	refusedEmpty atomic.Int64 // registrations refused (HTTP 500) while mayEmpty
	// A reload that retires generations is not atomic in the unchanged tree: the subnets are swapped
	// first, the new ClientConf (which makes the registrar move outdated clients to the newest
	// generation) is published right after. Between the two - and until a later reload if this one had
	// read the ClientConf before it was replaced - outdated clients are refused. mayLag is set from
	// the moment such a file is offered until an outdated client has been answered from it.
	mayLag atomic.Bool
	curGen atomic.Uint32 // generation of the ClientConf on disk (and the only one in the regular subnet file)
	emptyN atomic.Int64

	seq       atomic.Int64 // newest set written to the subnet file
	confirmed atomic.Int64 // newest set the registrar was seen answering from after its step
	reqN      atomic.Int64
}

func c13hFreePort(addr string) (int, error) {
	l, err := net.Listen("tcp", addr)
	if err != nil {
		return 0, err
	}
	defer l.Close()
	return l.Addr().(*net.TCPAddr).Port, nil
}

func c13hWrite(path string, data []byte) error {
	tmp := path + ".tmp" // replace atomically so that a reload never sees a half written file
	if err := os.WriteFile(tmp, data, 0o600); err != nil {
		return err
	}
	return os.Rename(tmp, path)
}

func c13hSubnets(seq int64) []byte { return c13hSubnetsG(seq, 1) }

// c13hSubnetsR: version seq with decoy-list generations lo..hi only (older ones are retired).
func c13hSubnetsR(seq int64, lo, hi uint32) []byte {
	var sb strings.Builder
	sb.WriteString("\n[Networks]\n")
	for g := lo; g <= hi; g++ {
		fmt.Fprintf(&sb, `    [Networks.%d]
        Generation = %d
        [[Networks.%d.WeightedSubnets]]
            Weight = 1
            RandomizeDstPort = true
            Subnets = ["10.%d.%d.0/24", "2001:db8:%x::/64"]
`, g, g, g, seq>>8, seq&255, 0x1000+seq)
	}
	return []byte(sb.String())
}

// c13hSubnetsG: version seq of the subnet file with decoy-list generations 1..gens, all of them on
// the subnets of that version (so the set an answer comes from identifies the file version).
func c13hSubnetsG(seq int64, gens uint32) []byte {
	var sb strings.Builder
	sb.WriteString("\n[Networks]\n")
	for g := uint32(1); g <= gens; g++ {
		fmt.Fprintf(&sb, `    [Networks.%d]
        Generation = %d
        [[Networks.%d.WeightedSubnets]]
            Weight = 1
            RandomizeDstPort = true
            Subnets = ["10.%d.%d.0/24", "2001:db8:%x::/64"]
`, g, g, g, seq>>8, seq&255, 0x1000+seq)
	}
	return []byte(sb.String())
}

// c13hSetOf maps phantoms back to the number of the set they lie in (-1: none).
func c13hSetOf(ip4, ip6 net.IP) (s4, s6 int64) {
	s4, s6 = -2, -2
	if ip4 != nil {
		s4 = -1
		if v := ip4.To4(); v != nil && v[0] == 10 {
			s4 = int64(v[1])<<8 | int64(v[2])
		}
	}
	if ip6 != nil {
		s6 = -1
		if v := ip6.To16(); v != nil && v[0] == 0x20 && v[1] == 0x01 && v[2] == 0x0d && v[3] == 0xb8 {
			s6 = (int64(v[4])<<8 | int64(v[5])) - 0x1000
		}
	}
	return
}

// c13hStart starts the real main() once.
var (
	c13hOnce   sync.Once
	c13hShared *c13hSrv
)

// c13hStart returns the one registrar of this process (main() can be started only once; the
// sub-checks of this package share it, one after the other).
func c13hStart(t *testing.T) *c13hSrv {
	c13hOnce.Do(func() { c13hShared = c13hStartMain(t) })
	if c13hShared == nil {
		t.Fatalf("harness problem: the registrar could not be started earlier in this process")
	}
	return c13hShared
}

func c13hStartMain(t *testing.T) *c13hSrv {
	// next to the record files, so that vcheck removes it with its work directory
	dir, err := os.MkdirTemp(filepath.Dir(vh.OutDir()), "sighup-")
	if err != nil {
		t.Fatalf("harness problem: %v", err)
	}
	s := &c13hSrv{dir: dir, subnetPath: filepath.Join(dir, "phantom_subnets.toml"), ccPath: filepath.Join(dir, "ClientConf"),
		confPath: filepath.Join(dir, "reg_config.toml"), keyPath: filepath.Join(dir, "privkey"), logs: &c13hLog{},
		client: &http.Client{Timeout: c13hReqTimeout}, mainDone: make(chan struct{})}
	s.fatal.Store("")
	s.curGen.Store(1)
	if s.apiPort, err = c13hFreePort(":0"); err != nil { // the API registrar binds all interfaces
		t.Fatalf("harness problem: %v", err)
	}
	if s.zmqPort, err = c13hFreePort("127.0.0.1:0"); err != nil {
		t.Fatalf("harness problem: %v", err)
	}
	s.cc, _ = proto.Marshal(&pb.ClientConf{Generation: proto.Uint32(1)})
	key := make([]byte, 64)
	_, _ = rand.Read(key)
	s.confText = []byte(fmt.Sprintf(`
log_level = "error"
log_metrics_interval = 3600
api_port = %d
zmq_port = %d
zmq_bind_addr = "127.0.0.1"
zmq_privkey_path = %q
zmq_auth_type = "NULL"
clientconf_path = %q
enforce_subnet_overrides = false
`, s.apiPort, s.zmqPort, s.keyPath, s.ccPath))
	for p, d := range map[string][]byte{s.keyPath: key, s.ccPath: s.cc, s.confPath: s.confText, s.subnetPath: c13hSubnets(0)} {
		if err := c13hWrite(p, d); err != nil {
			t.Fatalf("harness problem: %v", err)
		}
	}
	os.Setenv("PHANTOM_SUBNET_LOCATION", s.subnetPath)
	os.Setenv("LOG_CLIENT_IP", "false")
	log.SetOutput(s.logs)
	// log.Fatal in main() must not take the test process down silently
	log.StandardLogger().ExitFunc = func(int) {
		s.fatal.Store("main() called log.Fatal; log: " + s.logs.tail(600))
		runtime.Goexit()
	}
	// The configuration path reaches main() through the flag or through the environment, alternating
	// by seed and shard (both are supported ways to start the registrar; SIGHUP must work in both).
	shard, _ := vh.Shard()
	if (int(vh.Seed())+shard)%2 == 1 {
		s.startMode = "config-via-environment"
		os.Setenv("CJ_REGISTRAR_CONFIG", s.confPath)
		os.Args = []string{"regserver", "-api-only"}
	} else {
		s.startMode = "config-via-flag"
		os.Unsetenv("CJ_REGISTRAR_CONFIG")
		os.Args = []string{"regserver", "-config", s.confPath, "-api-only"}
	}
	go func() {
		defer close(s.mainDone)
		main()
	}()
	// wait until the API answers (the SIGHUP handler is installed before the listeners start, so no
	// SIGHUP is sent before that: an unhandled SIGHUP would kill the process)
	deadline := time.Now().Add(c13hStartup)
	for {
		set, key, msg := s.register("dual")
		if key == "" && set == 0 {
			return s
		}
		select {
		case <-s.mainDone:
			t.Fatalf("harness problem: main() returned during start-up (port taken?): %v; log: %s", s.fatal.Load(), s.logs.tail(600))
		default:
		}
		if time.Now().After(deadline) {
			t.Fatalf("harness problem: registrar did not come up within %v: %s %s; log: %s", c13hStartup, key, msg, s.logs.tail(600))
		}
		time.Sleep(50 * time.Millisecond)
	}
}

// register performs one bidirectional registration over HTTP. key != "" describes what went wrong:
// "transport" (no answer: not a verdict by itself), "status", "decode", "missing-family",
// "foreign-phantom", "mixed-sets".
func (s *c13hSrv) register(kind string) (set int64, key, msg string) {
	return s.registerGen(kind, 1)
}

// registerGen: the same for a client that is on decoy-list generation gen.
func (s *c13hSrv) registerGen(kind string, gen uint32) (set int64, key, msg string) {
	n := s.reqN.Add(1)
	emptyBefore := s.mayEmpty.Load() || s.mayLag.Load()
	tr := pb.TransportType_Min
	secret := make([]byte, 32)
	binary.BigEndian.PutUint64(secret, uint64(n))
	secret[31] = 0x13
	body, _ := proto.Marshal(&pb.C2SWrapper{
		SharedSecret: secret,
		RegistrationPayload: &pb.ClientToStation{
			Transport:           &tr,
			DecoyListGeneration: proto.Uint32(gen),
			CovertAddress:       proto.String("192.0.2.77:443"),
			V4Support:           proto.Bool(kind != "v6"),
			V6Support:           proto.Bool(kind != "v4"),
			ClientLibVersion:    proto.Uint32(3),
		},
	})
	resp, err := s.client.Post(fmt.Sprintf("http://127.0.0.1:%d/register-bidirectional", s.apiPort), "application/octet-stream", bytes.NewReader(body))
	if err != nil {
		return -1, "transport", err.Error()
	}
	defer resp.Body.Close()
	raw, err := io.ReadAll(resp.Body)
	if err != nil {
		return -1, "transport", err.Error()
	}
	if resp.StatusCode == http.StatusInternalServerError && (emptyBefore || s.mayEmpty.Load() || s.mayLag.Load()) {
		// a subnet file that defines no usable generation may be in force: the registrar refuses
		// registrations (quickly) until the next good reload - that is how they complete then
		s.refusedEmpty.Add(1)
		return c13hRefused, "", ""
	}
	if resp.StatusCode != http.StatusOK {
		return -1, "status", fmt.Sprintf("a valid %s registration was answered with HTTP %d %q", kind, resp.StatusCode, raw)
	}
	rr := &pb.RegistrationResponse{}
	if err := proto.Unmarshal(raw, rr); err != nil {
		return -1, "decode", err.Error()
	}
	var ip4, ip6 net.IP
	if kind != "v6" {
		if rr.Ipv4Addr == nil {
			return -1, "missing-family", "no IPv4 phantom in the answer to a " + kind + " registration"
		}
		ip4 = make(net.IP, 4)
		binary.BigEndian.PutUint32(ip4, rr.GetIpv4Addr())
	}
	if kind != "v4" {
		if len(rr.GetIpv6Addr()) != 16 {
			return -1, "missing-family", "no IPv6 phantom in the answer to a " + kind + " registration"
		}
		ip6 = net.IP(rr.GetIpv6Addr())
	}
	s4, s6 := c13hSetOf(ip4, ip6)
	if s4 == -1 || s6 == -1 {
		return -1, "foreign-phantom", fmt.Sprintf("phantom outside every subnet set that was ever configured: v4=%v v6=%v", ip4, ip6)
	}
	if s4 >= 0 && s6 >= 0 && s4 != s6 {
		return -1, "mixed-sets", fmt.Sprintf("one answer mixes subnet sets: v4 phantom %v is from set %d, v6 phantom %v is from set %d", ip4, s4, ip6, s6)
	}
	if s4 >= 0 {
		return s4, "", ""
	}
	return s6, "", ""
}

// c13hLockedUp looks for goroutines that wait for a registrar lock (confirmation for requests that
// got no answer).
func c13hLockedUp() string {
	buf := make([]byte, 4<<20)
	n := runtime.Stack(buf, true)
	var hits []string
	for _, blk := range strings.Split(string(buf[:n]), "\n\n") {
		hdr, _, _ := strings.Cut(blk, "\n")
		if (strings.Contains(hdr, "[sync.RWMutex.RLock") || strings.Contains(hdr, "[sync.RWMutex.Lock") || strings.Contains(hdr, "[sync.Mutex.Lock")) &&
			strings.Contains(blk, "regprocessor.(*RegProcessor).") {
			hits = append(hits, hdr)
		}
	}
	return strings.Join(hits, "; ")
}

type c13hViol struct{ key, msg string }

// judge turns a failed registration into a violation or a harness problem.
func (s *c13hSrv) judge(where, key, msg string) (*c13hViol, string) {
	switch key {
	case "transport":
		// the connection was closed without an answer (that is what net/http does when a handler
		// panics): not a matter of time. Confirmed by three more attempts on fresh connections.
		if !strings.Contains(msg, "Timeout") && !strings.Contains(msg, "timeout") && !strings.Contains(msg, "deadline") {
			again := 0
			last := msg
			for i := 0; i < 3; i++ {
				s.client.CloseIdleConnections()
				_, k, m := s.register("dual")
				if k == "transport" && !strings.Contains(m, "imeout") && !strings.Contains(m, "deadline") {
					again++
					last = m
				}
			}
			select {
			case <-s.mainDone:
				return nil, fmt.Sprintf("%s: main() has returned: %v; log: %s", where, s.fatal.Load(), s.logs.tail(400))
			default:
			}
			if again == 3 {
				return &c13hViol{"sighup:request-not-answered", fmt.Sprintf("%s: the registrar closes the connection without answering valid registrations (4 attempts, last error: %s)", where, last)}, ""
			}
			return nil, fmt.Sprintf("%s: registration got no answer once (%s) but later attempts were answered", where, msg)
		}
		// no answer within c13hReqTimeout: a verdict only if the dump shows the registrar wedged
		if up := c13hLockedUp(); up != "" {
			return &c13hViol{"sighup:request-not-answered", fmt.Sprintf("%s: registration got no answer (%s) and goroutines wait for registrar locks: %s", where, msg, up)}, ""
		}
		return nil, fmt.Sprintf("%s: registration got no answer and nothing waits for a registrar lock: %s; main: %v", where, msg, s.fatal.Load())
	case "decode":
		return nil, where + ": cannot decode the answer: " + msg
	case "status":
		return &c13hViol{"sighup:request-refused", where + ": " + msg}, ""
	default:
		return &c13hViol{"sighup:" + key, where + ": " + msg}, ""
	}
}

func (s *c13hSrv) sighup() {
	_ = syscall.Kill(os.Getpid(), syscall.SIGHUP)
}

// step applies one operator step and checks its effect.
func (s *c13hSrv) step(kind string, prevFailed bool) (v *c13hViol, harness string, classes []string) {
	// repair everything except the subnet file first
	for p, d := range map[string][]byte{s.confPath: s.confText, s.ccPath: s.cc} {
		if err := c13hWrite(p, d); err != nil {
			return nil, err.Error(), nil
		}
	}
	old := s.confirmed.Load()
	nConf, nSub := s.logs.count("error occurred while reloading config"), s.logs.count("failed to reload phantom subnets")
	expectLog, before := "failed to reload phantom subnets", nSub
	var err error
	switch kind {
	case "valid":
		g := s.curGen.Load()
		err = c13hWrite(s.subnetPath, c13hSubnetsR(s.seq.Add(1), g, g))
	case "rollout":
		// generation N+1 is rolled out and generation N is retired: new ClientConf, and a subnet
		// file that contains only the new generation
		g := s.curGen.Add(1)
		s.cc, _ = proto.Marshal(&pb.ClientConf{Generation: proto.Uint32(g)})
		s.mayLag.Store(true)
		if err = c13hWrite(s.ccPath, s.cc); err == nil {
			err = c13hWrite(s.subnetPath, c13hSubnetsR(s.seq.Add(1), g, g))
		}
	case "badsubnets":
		err = c13hWrite(s.subnetPath, []byte("[Networks\n  this is = = not toml ]]\n"))
	case "nosubnets":
		if err = os.Remove(s.subnetPath); os.IsNotExist(err) {
			err = nil
		}
	case "emptysubnets":
		s.mayEmpty.Store(true)
		err = c13hWrite(s.subnetPath, []byte(c13hEmptyFiles[int(s.emptyN.Add(1))%len(c13hEmptyFiles)]))
		expectLog = ""
	case "badconf":
		err = c13hWrite(s.confPath, []byte("api_port = = [[ not toml\n"))
		expectLog, before = "error occurred while reloading config", nConf
	case "nocc":
		if err = os.Remove(s.ccPath); os.IsNotExist(err) {
			err = nil
		}
		expectLog, before = "error occurred while reloading config", nConf
	case "badcc":
		err = c13hWrite(s.ccPath, bytes.Repeat([]byte{0xff}, 17))
		expectLog, before = "error occurred while reloading config", nConf
	default:
		return nil, "unknown step kind " + kind, nil
	}
	if err != nil {
		return nil, err.Error(), nil
	}
	s.sighup()

	if kind == "valid" || kind == "rollout" {
		want := s.seq.Load()
		classes = append(classes, "valid")
		if kind == "rollout" {
			classes = append(classes, "rollout")
		}
		if prevFailed {
			classes = append(classes, "valid-after-failed")
		} else {
			classes = append(classes, "valid-after-valid")
		}
		start, lastSig, sent := time.Now(), time.Now(), 1
		for polls := 0; ; polls++ {
			set, key, msg := s.register("dual")
			if key != "" {
				v, h := s.judge("after a valid reload step", key, msg)
				return v, h, classes
			}
			if set == want {
				s.confirmed.Store(want)
				s.mayEmpty.Store(false)
				s.mayLag.Store(false)
				return nil, "", classes
			}
			refusedNow := set == c13hRefused
			if refusedNow {
				set = old // still refused (empty set in force, or ClientConf not republished yet): keep waiting
			}
			if set != old && set != want {
				// cannot happen with monotonic set numbers unless a stale file was loaded
				return &c13hViol{"sighup:unexpected-set", fmt.Sprintf("after a valid reload step to set %d (from set %d) a registration is answered from set %d", want, old, set)}, "", classes
			}
			// patience is time AND work (a thousand registrations of this loop answered meanwhile): a
			// machine too busy to run the registrar never produces a verdict
			if time.Since(start) > c13hPatience && sent >= 4 && polls >= 1000 && refusedNow && s.mayLag.Load() {
				// clients of the newest generation tell whether the subnets were reloaded
				if cs, ck, _ := s.registerGen("dual", s.curGen.Load()); ck == "" && cs == want {
					return &c13hViol{"sighup:outdated-clients-refused", fmt.Sprintf("generation %d was rolled out and the older generations retired from the subnet file: the reload has completed (a generation-%d client is answered from the new set %d), but after %d SIGHUPs over %v clients on an older generation are still refused with HTTP 500 - the new ClientConf was never republished to the registrar, which therefore does not move them to the new generation. Registrar log tail: %q",
						s.curGen.Load(), s.curGen.Load(), want, sent, time.Since(start).Round(time.Second), s.logs.tail(300))}, "", classes
				}
			}
			if time.Since(start) > c13hPatience && sent >= 4 && polls >= 1000 {
				return &c13hViol{"sighup:reload-never-completed", fmt.Sprintf("all files are valid and the phantom subnet file holds set %d, but after %d SIGHUPs over %v (process otherwise idle) registrations are still answered from set %d: the reload never completes. Registrar log tail: %q",
					want, sent, time.Since(start).Round(time.Second), set, s.logs.tail(300))}, "", classes
			}
			if time.Since(lastSig) > c13hResend {
				s.sighup()
				sent++
				lastSig = time.Now()
			}
			time.Sleep(5 * time.Millisecond)
		}
	}

	// a failing step: give the handler a bounded moment to report (auxiliary, decides nothing), then
	// the registrar must keep answering from the old set - before, during and after the failed reload.
	if kind == "emptysubnets" {
		classes = append(classes, "empty-file-offered")
		// auxiliary: a bounded moment for the reload to happen (decides nothing)
		n0 := s.refusedEmpty.Load()
		for dl := time.Now().Add(c13hLogWait); time.Now().Before(dl) && s.refusedEmpty.Load() == n0; time.Sleep(2 * time.Millisecond) {
			if set, key, msg := s.register("dual"); key != "" {
				v, h := s.judge("after a reload step with a subnet file that defines nothing", key, msg)
				return v, h, classes
			} else if set != old && set != c13hRefused {
				return &c13hViol{"sighup:failed-reload-changed-set", fmt.Sprintf("after a reload step with a subnet file that defines nothing registrations are answered from set %d (old set %d)", set, old)}, "", classes
			}
		}
		if s.refusedEmpty.Load() > n0 {
			classes = append(classes, "refused-by-empty-set")
		}
	} else {
		classes = append(classes, "failed:"+kind)
		deadline := time.Now().Add(c13hLogWait)
		for s.logs.count(expectLog) == before && time.Now().Before(deadline) {
			time.Sleep(2 * time.Millisecond)
		}
		if s.logs.count(expectLog) > before {
			classes = append(classes, "failure-reported")
		}
	}
	for i := 0; i < 3; i++ {
		set, key, msg := s.register([]string{"dual", "v4", "v6"}[i])
		if key != "" {
			v, h := s.judge("after a failing reload step ("+kind+")", key, msg)
			return v, h, classes
		}
		if set != old && set != c13hRefused {
			return &c13hViol{"sighup:failed-reload-changed-set", fmt.Sprintf("after a failing reload step (%s) registrations are answered from set %d instead of the old set %d", kind, set, old)}, "", classes
		}
	}
	return nil, "", classes
}

// c13hDeBruijn returns a sequence over k symbols that contains every word of length n.
func c13hDeBruijn(k, n int) []int {
	a := make([]int, k*n)
	var seq []int
	var db func(t, p int)
	db = func(t, p int) {
		if t > n {
			if n%p == 0 {
				seq = append(seq, a[1:p+1]...)
			}
			return
		}
		a[t] = a[t-p]
		db(t+1, p)
		for j := a[t-p] + 1; j < k; j++ {
			a[t] = j
			db(t+1, t)
		}
	}
	db(1, 1)
	return append(seq, seq[:n-1]...)
}

func TestVerif_C13_sighup(t *testing.T) {
	rec := vh.NewRec("C13", "sighup", "the real main() of cmd/registration-server, started once per process (-api-only, ZMQ auth NULL, free ports), driven by one long history of operator steps {valid: all files fine, fresh disjoint subnet set; badsubnets; nosubnets; badconf; nocc; badcc}, each followed by SIGHUP to the own pid and observed through HTTP registrations; the history is a de Bruijn sequence over the six step kinds (quick: every ordered triple, thorough: every ordered quadruple) followed by a rapid-drawn tail; two request loops run throughout. One evaluation = one step (with the whole history before it); non-trivial = a valid step that follows a failed one; distinct by history prefix")
	defer rec.Flush()
	var hist []string
	replay := vh.ReplayFile() != ""
	if replay {
		var c c13hCase
		if _, _, err := vh.LoadReplay(vh.ReplayFile(), &c); err != nil {
			t.Fatal(err)
		}
		hist = c.Steps
	} else {
		rec.Require("valid-after-failed", "valid-after-valid", "failed:badsubnets", "failed:nosubnets", "failed:badconf", "failed:nocc", "failed:badcc", "empty-file-offered", "refused-by-empty-set", "rollout", "concurrent-requests", "config-via-environment", "config-via-flag")
		shard, _ := vh.Shard()
		for _, x := range c13hDeBruijn(len(c13hKinds), vh.Pick(3, 4)) {
			hist = append(hist, c13hKinds[x])
		}
		if shard%2 == 1 { // odd shards play the enumeration backwards
			for i, j := 0, len(hist)-1; i < j; i, j = i+1, j-1 {
				hist[i], hist[j] = hist[j], hist[i]
			}
		}
		tail := rapid.SliceOfN(rapid.SampledFrom([]string{"valid", "valid", "valid", "badsubnets", "nosubnets", "badconf", "nocc", "badcc", "emptysubnets", "rollout"}), vh.Pick(100, 1000), vh.Pick(100, 1000)).
			Example(int(vh.Seed())*1000 + shard)
		hist = append(hist, tail...)
	}

	s := c13hStart(t)
	rec.Class(s.startMode)

	// request loops for the whole history
	var (
		stop   atomic.Bool
		wg     sync.WaitGroup
		nReq   atomic.Int64
		wviol  = make(chan c13hViol, 8)
		wharn  = make(chan string, 8)
		report = func(v *c13hViol, h string) {
			if v != nil {
				select {
				case wviol <- *v:
				default:
				}
			} else if h != "" {
				select {
				case wharn <- h:
				default:
				}
			}
		}
	)
	for w := 0; w < 2; w++ {
		wg.Add(1)
		go func(w int) {
			defer wg.Done()
			for i := 0; !stop.Load(); i++ {
				kind := []string{"dual", "v4", "v6"}[(w+i)%3]
				lo := s.confirmed.Load()
				set, key, msg := s.register(kind)
				hi := s.seq.Load()
				nReq.Add(1)
				if key != "" {
					report(s.judge("request loop", key, msg))
					return
				}
				if set != c13hRefused && (set < lo || set > hi) {
					report(&c13hViol{"sighup:stale-set", fmt.Sprintf("request loop: a %s registration was answered from set %d although sets %d..%d were the ones installed or written while it ran", kind, set, lo, hi)}, "")
					return
				}
				time.Sleep(time.Millisecond)
			}
		}(w)
	}
	finish := func() {
		stop.Store(true)
		wg.Wait()
		rec.ClassN("concurrent-requests", nReq.Load())
		rec.Extra("concurrent_requests", nReq.Load())
	}

	prevFailed := false
	for i, kind := range hist {
		c := c13hCase{Steps: hist[:i+1]}
		v, harness, classes := s.step(kind, prevFailed)
		if v == nil && harness == "" {
			select {
			case x := <-wviol:
				v = &x
			case h := <-wharn:
				harness = h
			default:
			}
		}
		if harness != "" {
			finish()
			t.Fatalf("harness problem: step %d (%s): %s", i, kind, harness)
		}
		rec.Case(kind == "valid" && prevFailed, vh.Digest(c), c13hCase{Steps: append([]string{"..."}, hist[c13hMax0(i-3):i+1]...)}, classes...)
		if v != nil {
			finish()
			rec.Violation(t, v.key, c, "step %d (%s) of history %v: %s", i, kind, c13hShort(c.Steps), v.msg)
			return
		}
		prevFailed = kind != "valid"
	}
	finish()
	select {
	case x := <-wviol:
		rec.Violation(t, x.key, c13hCase{Steps: hist}, "%s", x.msg)
	case h := <-wharn:
		t.Fatalf("harness problem: %s", h)
	default:
	}
}

func c13hShort(steps []string) []string {
	if len(steps) <= 12 {
		return steps
	}
	return append(append([]string{}, "... "+fmt.Sprint(len(steps)-10)+" earlier steps ..."), steps[len(steps)-10:]...)
}

func c13hMax0(i int) int {
	if i < 0 {
		return 0
	}
	return i
}
