package main

// C11 — connection HISTORIES on one connection manager.
//
// A station handles many phantom connections at once and keeps per-family / per-AS state about them
// (connStats) that the periodic statistics tick prints and resets. What one connection's bytes and
// its end do therefore depends on what other connections and ticks happened in between. Sub-check
// connhist generates such histories: connections to an IPv4 / IPv6 phantom with or without
// registrations, from one of two ASes with a known / unknown / "unk" country code or a failing GeoIP
// lookup, that send nothing / a probe / part of a genuine flight / a genuine min or prefix flight / a
// flight under the wrong prefix / more than any transport accepts, in 1-3 segments, and then close,
// reset, time out or fail — and WHILE a connection waits for its next segment or for its end, other
// events happen: the connection-statistics PrintAndReset, the other periodic ticks (registration
// manager, proxy and liveness statistics, registration clean-up), and further connections (nested,
// i.e. fully or partly overlapping in time).
//
// Overlap is deterministic, without scheduling: the scripted connection (verif/harness/vconn) calls a
// hook when the handler's Read reaches a step, and the hook runs the nested events to completion
// before the Read returns — exactly what the handler observes when those events happen while it is
// blocked in that Read (it holds no lock there). The handler's one deliberate real-time sleep (after
// a transport error) is run detached, as in the conn sub-check.
//
// Oracle: no panic anywhere in the history (key panic:connhist:<top frame>), every handler returns
// (hang:connhist).

import (
	"errors"
	"fmt"
	"io"
	"net"
	"reflect"
	"runtime/debug"
	"sort"
	"strconv"
	"strings"
	"sync/atomic"
	"testing"
	"time"

	cj "github.com/refraction-networking/conjure/pkg/station/lib"
	"github.com/refraction-networking/conjure/pkg/station/log"
	pb "github.com/refraction-networking/conjure/proto"
	"pgregory.net/rapid"
	"verif/harness/c11h"
	"verif/harness/vconn"
	"verif/harness/vh"
)

const c11HistSub = "connhist"

type c11HEvent struct {
	Kind string    `json:"kind"` // conn | connstats | ticks
	Conn *c11HConn `json:"conn,omitempty"`
}

type c11HConn struct {
	V6     bool          `json:"v6,omitempty"`
	AS     int           `json:"as"`                // 0 / 1
	CC     string        `json:"cc"`                // US | "" (unknown) | unk | err (GeoIP lookup fails)
	NoRegs bool          `json:"no_regs,omitempty"` // phantom without registrations (read-and-discard state)
	Flight string        `json:"flight"`            // none | probe | partial | min | prefix | long | wrong-prefix
	Segs   int           `json:"segments"`          // the bytes arrive in this many reads (long: in 4096-byte reads)
	End    string        `json:"end"`               // eof | reset | timeout | enobufs
	During [][]c11HEvent `json:"during,omitempty"`  // During[i]: what happens while the handler waits for segment i; the last entry: while it waits for the end
}

type c11HistCase struct {
	Events []c11HEvent `json:"events"`
}

var c11HistCCs = []string{"US", "", "unk", "err"}

// c11HistGeo decodes (AS, country class) from the last byte of the peer address (see c11HistRemote).
type c11HistGeo struct{}

func c11HistDecode(ip net.IP) (as int, cc string) {
	b := int(ip[len(ip)-1]) - 20
	if b < 0 || b >= 8 {
		return 0, "US"
	}
	return b / 4, c11HistCCs[b%4]
}

func (c11HistGeo) CC(ip net.IP) (string, error) {
	_, cc := c11HistDecode(ip)
	if cc == "err" {
		return "", errors.New("verif: geoip lookup fails")
	}
	return cc, nil
}

func (c11HistGeo) ASN(ip net.IP) (uint, error) {
	as, _ := c11HistDecode(ip)
	return uint(64512 + as), nil
}

func c11HistRemote(c *c11HConn) string {
	idx := 0
	for i, cc := range c11HistCCs {
		if cc == c.CC {
			idx = i
		}
	}
	b := 20 + (c.AS&1)*4 + idx
	if c.V6 {
		return fmt.Sprintf("[2001:db8::%x]:5555", b)
	}
	return fmt.Sprintf("203.0.113.%d:5555", b)
}

type c11HistRun struct {
	e        *c11AppEnv
	flights  map[string][]byte
	lg       *log.Logger
	classes  map[string]bool
	open     int // connections currently inside their handler
	conns    int
	detached []chan any
	detPanic any // first panic of a nested event or of a detached handler (with its own stack)
	detStack string
}

// transitions folds the non-zero transition counters of the connection manager into the classes
// (called before every reset and at the end, because a reset clears them).
func (r *c11HistRun) transitions() {
	for fam, st := range map[string]*statCounts{"v4": &r.e.cm.ipv4, "v6": &r.e.cm.ipv6} {
		v := reflect.ValueOf(st).Elem()
		for i := 0; i < v.NumField(); i++ {
			name := v.Type().Field(i).Name
			if v.Field(i).Kind() == reflect.Int64 && strings.Contains(name, "To") && strings.HasPrefix(name, "num") && v.Field(i).Int() > 0 {
				r.classes["tr:"+fam+":"+strings.TrimPrefix(name, "num")] = true
			}
		}
	}
}

func (r *c11HistRun) event(ev c11HEvent, depth int) {
	if r.detPanic != nil {
		return // a nested event panicked: the history ends here (handlers that are open run to their ends)
	}
	switch ev.Kind {
	case "connstats":
		r.transitions()
		if r.open > 0 {
			r.classes["stats-reset-while-connection-open"] = true
		}
		r.e.cm.PrintAndReset(r.lg)
	case "ticks":
		r.e.rm.PrintAndReset(r.lg)
		cj.GetProxyStats().PrintAndReset(r.lg)
		r.e.rm.LivenessTester.PrintAndReset(r.lg)
		r.e.rm.RemoveOldRegistrations()
	case "conn":
		if ev.Conn != nil && depth <= 3 && r.conns < 12 {
			r.conn(ev.Conn, depth)
		}
	}
}

func (r *c11HistRun) bytesFor(c *c11HConn) []byte {
	switch c.Flight {
	case "probe":
		return aPayload(r.conns, 100, "c11hist")
	case "partial":
		return r.flights["min"][:20]
	case "min":
		return append(append([]byte(nil), r.flights["min"]...), "GET / HTTP/1.1\r\n\r\n"...)
	case "prefix":
		return r.flights["prefix"]
	case "wrong-prefix":
		return r.flights["wrong-prefix"]
	case "long":
		return aPayload(r.conns, 8200, "c11hist-long")
	}
	return nil
}

func (r *c11HistRun) conn(c *c11HConn, depth int) {
	if c.Flight == "wrong-prefix" && len(c.During) > 0 {
		// this connection may run detached (see below); nothing is nested into it
		cc := *c
		cc.During = nil
		c = &cc
	}
	r.conns++
	data := r.bytesFor(c)
	segs := c.Segs
	if segs < 1 {
		segs = 1
	}
	var parts [][]byte
	if c.Flight == "long" {
		for len(data) > 0 {
			n := min(4096, len(data))
			parts = append(parts, data[:n])
			data = data[n:]
		}
	} else if len(data) > 0 {
		if segs > len(data) {
			segs = len(data)
		}
		for i := 0; i < segs; i++ {
			a, b := len(data)*i/segs, len(data)*(i+1)/segs
			parts = append(parts, data[a:b])
		}
	}
	var steps []vconn.Step
	for i, p := range parts {
		st := vconn.Step{Data: vh.Hex(p)}
		if i < len(c.During) && len(c.During[i]) > 0 {
			st.Hook = strconv.Itoa(i)
		}
		steps = append(steps, st)
	}
	end := c.End
	if end == "" {
		end = "eof"
	}
	last := vconn.Step{Err: end}
	if k := len(c.During) - 1; k >= 0 && k >= len(parts) && len(c.During[k]) > 0 {
		last.Hook = strconv.Itoa(k)
	}
	steps = append(steps, last)
	conn := vconn.New(vconn.Script{Reads: steps, End: end, Remote: c11HistRemote(c)})
	conn.OnHook = func(name string) {
		// the hook runs inside the scripted connection's Read, which cannot unwind through a panic:
		// a panic of a nested event is recorded here (with its own stack) and ends the history
		defer func() {
			if p := recover(); p != nil && r.detPanic == nil {
				r.detPanic, r.detStack = p, string(debug.Stack())
			}
		}()
		k, _ := strconv.Atoi(name)
		if k < len(c.During) {
			for _, ev := range c.During[k] {
				if ev.Kind == "conn" {
					r.classes["overlapping-connections"] = true
					if ev.Conn != nil && ev.Conn.V6 != c.V6 && ev.Conn.AS == c.AS {
						r.classes["overlap-same-as-other-family"] = true
					}
				}
				r.event(ev, depth+1)
			}
		}
	}
	ph := aPhantom(0, c.V6)
	if c.NoRegs {
		ph = aPhantom(7, c.V6)
	}
	fam := "v4"
	if c.V6 {
		fam = "v6"
	}
	r.classes["conn:"+fam+":"+c.Flight+":"+end] = true
	r.classes["cc:"+c.CC] = true
	if c.Flight == "wrong-prefix" && !c.NoRegs && c.CC != "err" {
		// ends in the handler's deliberate sleep until the classification deadline: run it detached and
		// go on once it has reached the sleep (check->error) or returned
		st := &r.e.cm.ipv4
		if c.V6 {
			st = &r.e.cm.ipv6
		}
		before := atomic.LoadInt64(&st.numCheckToError)
		done := make(chan any, 1)
		go func() {
			defer func() {
				p := recover()
				if p != nil && r.detPanic == nil {
					r.detPanic, r.detStack = p, string(debug.Stack())
				}
				done <- p
			}()
			r.e.cm.handleNewTCPConn(r.e.rm, conn, ph)
		}()
		for {
			select {
			case <-done:
				return
			default:
			}
			if atomic.LoadInt64(&st.numCheckToError) > before {
				r.classes["deliberate-sleep-detached"] = true
				r.detached = append(r.detached, done)
				return
			}
			time.Sleep(50 * time.Microsecond)
		}
	}
	r.open++
	r.e.cm.handleNewTCPConn(r.e.rm, conn, ph)
	r.open--
}

func c11HistCount(evs []c11HEvent) (conns, resets int) {
	for _, ev := range evs {
		switch ev.Kind {
		case "connstats":
			resets++
		case "conn":
			if ev.Conn != nil {
				conns++
				for _, d := range ev.Conn.During {
					c, r := c11HistCount(d)
					conns, resets = conns+c, resets+r
				}
			}
		}
	}
	return
}

func c11HistRunCase(e *c11AppEnv, flights map[string][]byte, c c11HistCase) (classes []string, nontrivial bool, o c11h.Outcome) {
	e.c11ResetRegistry(0)
	e.dirty = true
	e.cm = newConnManager(nil)
	oldGeo := e.rm.GeoIP
	e.rm.GeoIP = c11HistGeo{}
	defer func() { e.rm.GeoIP = oldGeo }()
	lg := log.New(io.Discard, "[C11] ", 0)
	r := &c11HistRun{e: e, flights: flights, lg: lg, classes: map[string]bool{}}
	o = c11h.Guard(c11h.Bound, func() {
		for _, ev := range c.Events {
			r.event(ev, 0)
		}
		r.transitions()
		r.e.cm.PrintAndReset(lg)
	})
	if o.Hung || o.Inconclusive {
		return []string{"gave-up-waiting"}, true, o
	}
	if o.Panic == nil && r.detPanic != nil {
		o.Panic, o.Stack = r.detPanic, r.detStack // a nested event, or a detached handler before its sleep, panicked
	}
	for k := range r.classes {
		classes = append(classes, k)
	}
	sort.Strings(classes)
	conns, resets := c11HistCount(c.Events)
	nontrivial = conns >= 2 && (r.classes["stats-reset-while-connection-open"] || r.classes["overlapping-connections"])
	_ = resets
	return classes, nontrivial, o
}

func c11HistCheck(t vh.Fataler, rec *vh.Rec, e *c11AppEnv, flights map[string][]byte, c c11HistCase, kind string) {
	classes, nontrivial, o := c11HistRunCase(e, flights, c)
	classes = append(classes, "src:"+kind)
	c11h.Report(t, rec, c11HistSub, "connhist", c, vh.Digest(c), o, nontrivial, classes...)
}

// c11HistFlights: genuine flights for registrations of the fixed registry (phantom 0, both families).
func c11HistFlights(tb testing.TB, e *c11AppEnv) map[string][]byte {
	out := map[string][]byte{}
	w, err := e.aFlight(aSecret(0), pb.TransportType_Min, 0, 0)
	if err != nil {
		tb.Fatalf("harness problem: %v", err)
	}
	out["min"] = aJoin(w)
	// secret 3 is registered with prefix id aPrefixIDs[0]; secret 4 with aPrefixIDs[1]
	w, err = e.aFlight(aSecret(3), pb.TransportType_Prefix, aPrefixIDs[0], 0)
	if err != nil {
		tb.Fatalf("harness problem: %v", err)
	}
	out["prefix"] = aJoin(w)
	w, err = e.aFlight(aSecret(3), pb.TransportType_Prefix, aPrefixIDs[1], 0)
	if err != nil {
		tb.Fatalf("harness problem: %v", err)
	}
	out["wrong-prefix"] = aJoin(w)
	return out
}

var (
	c11HistFlightKinds = []string{"none", "probe", "partial", "min", "prefix", "long", "none", "probe", "long", "wrong-prefix"}
	c11HistEnds        = []string{"eof", "eof", "reset", "timeout", "enobufs"}
)

func c11HistGenConn(rt *rapid.T, label string, depth int, budget *int, parent *c11HConn) *c11HConn {
	*budget--
	c := &c11HConn{V6: rapid.Bool().Draw(rt, label+"_v6"), AS: rapid.SampledFrom([]int{0, 0, 1}).Draw(rt, label+"_as"),
		CC: rapid.SampledFrom([]string{"US", "US", "US", "unk", "", "US", "err"}).Draw(rt, label+"_cc")}
	if parent != nil && rapid.IntRange(0, 9).Draw(rt, label+"_sameas") < 7 {
		c.AS = parent.AS
	}
	c.NoRegs = rapid.IntRange(0, 2).Draw(rt, label+"_noregs") == 2
	c.Flight = rapid.SampledFrom(c11HistFlightKinds).Draw(rt, label+"_flight")
	c.Segs = rapid.IntRange(1, 3).Draw(rt, label+"_segs")
	c.End = rapid.SampledFrom(c11HistEnds).Draw(rt, label+"_end")
	// interleaving points: before each segment and before the end
	points := 1
	switch c.Flight {
	case "wrong-prefix":
		return c
	case "none":
	case "long":
		points = 4
	default:
		points = c.Segs + 1
	}
	c.During = make([][]c11HEvent, points)
	any := false
	for i := 0; i < points; i++ {
		if rapid.Bool().Draw(rt, fmt.Sprintf("%s_d%d", label, i)) {
			continue
		}
		n := rapid.IntRange(1, 3).Draw(rt, fmt.Sprintf("%s_d%d_n", label, i))
		for j := 0; j < n; j++ {
			l := fmt.Sprintf("%s_d%d_%d", label, i, j)
			k := rapid.SampledFrom([]string{"connstats", "connstats", "conn", "conn", "conn", "ticks"}).Draw(rt, l)
			ev := c11HEvent{Kind: k}
			if k == "conn" {
				if depth >= 2 || *budget <= 0 {
					ev.Kind = "connstats"
				} else {
					ev.Conn = c11HistGenConn(rt, l, depth+1, budget, c)
				}
			}
			c.During[i] = append(c.During[i], ev)
			any = true
		}
	}
	if !any {
		c.During = nil
	}
	return c
}

func c11HistGen(rt *rapid.T) c11HistCase {
	budget := 7
	var c c11HistCase
	n := rapid.IntRange(1, 4).Draw(rt, "nevents")
	for i := 0; i < n; i++ {
		l := fmt.Sprintf("e%d", i)
		k := rapid.SampledFrom([]string{"conn", "conn", "conn", "connstats", "ticks"}).Draw(rt, l)
		ev := c11HEvent{Kind: k}
		if k == "conn" {
			if budget <= 0 {
				ev.Kind = "connstats"
			} else {
				ev.Conn = c11HistGenConn(rt, l, 0, &budget, nil)
			}
		}
		c.Events = append(c.Events, ev)
	}
	return c
}

// c11HistEnum enumerates a small complete sub-space: one outer connection (family x state it waits
// in x how it ends) during whose last wait there is nothing / a statistics reset / a connection of
// the same or the other family from the same AS / a reset followed by such a connection / such a
// connection followed by a reset.
func c11HistEnum() []c11HistCase {
	var out []c11HistCase
	for _, v6 := range []bool{false, true} {
		for _, st := range []struct {
			flight string
			noregs bool
		}{{"none", false}, {"probe", false}, {"none", true}, {"long", false}, {"min", false}} {
			for _, end := range []string{"eof", "reset", "timeout", "enobufs"} {
				for _, otherV6 := range []bool{false, true} {
					inner := c11HEvent{Kind: "conn", Conn: &c11HConn{V6: otherV6, CC: "US", NoRegs: true, Flight: "none", Segs: 1, End: "eof"}}
					reset := c11HEvent{Kind: "connstats"}
					for _, during := range [][]c11HEvent{nil, {reset}, {inner}, {reset, inner}, {inner, reset}} {
						c := &c11HConn{V6: v6, CC: "US", NoRegs: st.noregs, Flight: st.flight, Segs: 1, End: end}
						points := 2
						if st.flight == "none" {
							points = 1
						} else if st.flight == "long" {
							points = 4
						}
						if during != nil {
							c.During = make([][]c11HEvent, points)
							c.During[points-1] = during
						} else if otherV6 {
							continue
						}
						out = append(out, c11HistCase{Events: []c11HEvent{{Kind: "conn", Conn: c}}})
					}
				}
			}
		}
	}
	return out
}

func TestVerif_C11_connhist(t *testing.T) {
	rec := c11h.Rec(c11HistSub, "histories on one connection manager: 1-4 top-level events (connection / connection-statistics PrintAndReset / the other periodic ticks), every connection = (family, AS 0/1, country US / unknown / unk / lookup error, phantom with or without registrations, no bytes / probe / partial flight / genuine min / genuine prefix / wrong prefix / 8200 bytes, 1-3 segments, end eof / reset / timeout / enobufs) with up to 3 further events (incl. nested connections, depth <= 2, <= 8 connections) while it waits for each segment and for its end; plus the enumerated sub-space {family x waiting state x end x (nothing / reset / same- or other-family connection from the same AS / both in either order)}; oracle: no panic, every handler returns; non-trivial = at least two connections and a statistics reset or another connection while one is open; distinct by history")
	defer rec.Flush()
	defer aSilenceStdout()()
	e := c11NewAppEnv(t)
	flights := c11HistFlights(t, e)
	if p := vh.ReplayFile(); p != "" {
		var c c11HistCase
		if _, _, err := vh.LoadReplay(p, &c); err != nil {
			t.Fatal(err)
		}
		c11HistCheck(t, rec, e, flights, c, "replay")
		return
	}
	req := []string{"stats-reset-while-connection-open", "overlapping-connections", "overlap-same-as-other-family", "deliberate-sleep-detached", "cc:US", "cc:", "cc:unk", "cc:err"}
	for _, fam := range []string{"v4", "v6"} {
		for _, tr := range []string{"CreatedToDiscard", "CreatedToCheck", "CreatedToReset", "CreatedToTimeout", "CreatedToError", "CreatedToClose", "ReadToCheck", "ReadToTimeout", "ReadToReset",
			"ReadToError", "CheckToRead", "CheckToFound", "CheckToError", "CheckToDiscard", "DiscardToReset", "DiscardToTimeout", "DiscardToError", "DiscardToClose"} {
			req = append(req, "tr:"+fam+":"+tr)
		}
	}
	rec.Require(req...)
	for i, c := range c11HistEnum() {
		if vh.Mine(i) {
			c11HistCheck(t, rec, e, flights, c, "enumerated")
		}
	}
	rapid.Check(t, func(rt *rapid.T) { c11HistCheck(rt, rec, e, flights, c11HistGen(rt), "generated") })
}
