package main

// C11 — no externally supplied bytes can crash a station: first-flight bytes on phantom connections.
//
// Two entry points over a registry that holds registrations of every transport (min, prefix with
// every default prefix id, obfs4, dtls) on the probed phantoms, plus — in half of the cases —
// registrations created by generated registration messages through the real ingest path and probed
// with flights that are genuine for them (two-step inputs, see zz_verif_c11_genreg_test.go):
//
//   wrap — the bytes received so far -> WrapConnection of every wrapping transport (min, prefix,
//          obfs4), and, when a transport accepts, reading the wrapped connection to its end (the
//          remaining attacker bytes go through the transport's stream decoding);
//   conn — the whole handleNewTCPConn on a scripted connection (verif/harness/vconn) that delivers
//          the bytes in fuzz-chosen segments and then reports EOF, so the handler returns at once
//          instead of waiting out its 5-10 s classification deadline.
//
// Oracle (inside the targets): the call returns, does not panic (-> panic:<entry>:<top frame>) and
// finishes within c11h.Bound. The handler's one deliberate real-time wait — time.Sleep until the
// classification deadline after a transport reported an unexpected error (probe resistance, see
// C03) — is recognised through the state counter the handler bumps just before it sleeps
// (check->error) and is not a hang: the sleeping goroutine is left behind (it returns without
// touching anything once the sleep ends).

import (
	"bytes"
	"context"
	"errors"
	"fmt"
	"io"
	"net"
	"sync"
	"sync/atomic"
	"testing"
	"time"

	"github.com/refraction-networking/conjure/pkg/core"
	cj "github.com/refraction-networking/conjure/pkg/station/lib"
	"github.com/refraction-networking/conjure/pkg/transports"
	pb "github.com/refraction-networking/conjure/proto"
	"google.golang.org/protobuf/proto"
	"google.golang.org/protobuf/types/known/anypb"
	"pgregory.net/rapid"
	"verif/harness/c11h"
	"verif/harness/vconn"
	"verif/harness/vh"
)

const (
	c11WrapSub = "wrap"
	c11ConnSub = "conn"
	// a closed loopback port: a recognised tunnel fails at once with "connection refused"
	c11Covert = "127.0.0.1:1"
)

type c11AppEnv struct {
	*aEnv
	regs  []*cj.DecoyRegistration // every registration of the registry
	specs []aRegSpec
	// registry state tracking: the registry is rebuilt at the top of a case unless it provably is in
	// the wanted initial state already (same variant, and the previous case changed nothing: the
	// only writes a case can make are MarkActive / the tunnel of a recognised registration)
	variant int
	dirty   bool
	cs      *c11AppConnStats
}

var c11ResolverOnce sync.Once

func c11NoNetwork() {
	c11ResolverOnce.Do(func() {
		net.DefaultResolver = &net.Resolver{PreferGo: true, Dial: func(context.Context, string, string) (net.Conn, error) {
			return nil, errors.New("verif: no network")
		}}
	})
}

// c11Specs: secrets 0..2 as min, 3..12 as prefix (one per default prefix id), 13..14 as obfs4, on
// phantom 0 of both families; secret 15 as min on phantom 1 (another phantom).
func c11Specs() []aRegSpec {
	var out []aRegSpec
	for _, v6 := range []bool{false, true} {
		for s := 0; s < 3; s++ {
			out = append(out, aRegSpec{Secret: s, TT: 0, Phantom: 0, V6: v6, Covert: c11Covert})
		}
		for i, id := range aPrefixIDs {
			out = append(out, aRegSpec{Secret: 3 + i, TT: 1, PrefixID: id, Phantom: 0, V6: v6, Covert: c11Covert})
		}
		for s := 13; s < 15; s++ {
			out = append(out, aRegSpec{Secret: s, TT: 2, Phantom: 0, V6: v6, Covert: c11Covert})
		}
		out = append(out, aRegSpec{Secret: 15, TT: 0, Phantom: 1, V6: v6, Covert: c11Covert})
	}
	return out
}

// c11MakeDTLSReg builds a DTLS registration on the probed phantom through the real constructor.
func (e *c11AppEnv) c11MakeDTLSReg(secret int, v6 bool) (*cj.DecoyRegistration, error) {
	params, err := anypb.New(&pb.DTLSTransportParams{SrcAddr4: &pb.Addr{IP: []byte{198, 51, 100, 7}, Port: proto.Uint32(40000)},
		SrcAddr6: &pb.Addr{IP: net.ParseIP("2001:db8::7"), Port: proto.Uint32(40001)}, RandomizeDstPort: proto.Bool(false)})
	if err != nil {
		return nil, err
	}
	c2s := &pb.ClientToStation{
		ClientLibVersion: proto.Uint32(core.CurrentClientLibraryVersion()), DecoyListGeneration: proto.Uint32(957), CovertAddress: proto.String(c11Covert),
		V4Support: proto.Bool(!v6), V6Support: proto.Bool(v6), Transport: pb.TransportType_DTLS.Enum(), TransportParams: params, Flags: &pb.RegistrationFlags{},
	}
	rr := &pb.RegistrationResponse{}
	ph := aPhantom(0, v6)
	if v6 {
		rr.Ipv6Addr = []byte(ph.To16())
	} else {
		rr.Ipv4Addr = proto.Uint32(uint32(ph.To4()[0])<<24 | uint32(ph.To4()[1])<<16 | uint32(ph.To4()[2])<<8 | uint32(ph.To4()[3]))
	}
	w := &pb.C2SWrapper{SharedSecret: aSecret(secret), RegistrationPayload: c2s, RegistrationSource: pb.RegistrationSource_API.Enum(),
		RegistrationAddress: []byte(net.IPv4(198, 51, 100, 7).To4()), RegistrationResponse: rr}
	return e.rm.NewRegistrationC2SWrapper(w, v6)
}

func c11NewAppEnv(tb testing.TB) *c11AppEnv {
	c11NoNetwork()
	e := &c11AppEnv{aEnv: aNewEnv(tb), specs: c11Specs(), dirty: true}
	e.c11InstallIngest(tb) // two-generation subnet file, stubbed connecting transport (see zz_verif_c11_genreg_test.go)
	for _, s := range e.specs {
		reg, err := e.aMakeReg(s)
		if err != nil {
			tb.Fatalf("harness problem: registration %+v: %v", s, err)
		}
		e.regs = append(e.regs, reg)
	}
	for _, v6 := range []bool{false, true} {
		reg, err := e.c11MakeDTLSReg(16, v6)
		if err != nil {
			tb.Fatalf("harness problem: dtls registration: %v", err)
		}
		e.regs = append(e.regs, reg)
	}
	return e
}

// c11ResetRegistry: registry variant 0 = every registration valid, 1 = empty registry, 2 = only
// the obfs4 registrations, 3 = everything tracked but nothing validated.
func (e *c11AppEnv) c11ResetRegistry(variant int) {
	if !e.dirty && e.variant == variant {
		return
	}
	e.variant, e.dirty = variant, false
	cj.VerifResetRegistry(e.rm)
	e.ClearAnns()
	for _, reg := range e.regs {
		switch variant {
		case 1:
			continue
		case 2:
			if reg.Transport != pb.TransportType_Obfs4 {
				continue
			}
		case 3:
			_ = e.rm.TrackRegistration(reg)
			continue
		}
		e.rm.AddRegistration(reg)
	}
}

// ---- genuine flights ------------------------------------------------------------------------------

type c11Flight struct {
	Name string
	Data []byte
}

// c11Flights returns first flights written by the real client transports for registrations of the
// registry: min, prefix (every id), obfs4 (time-dependent: valid for about an hour).
func (e *c11AppEnv) c11Flights(tb testing.TB, withObfs4 bool) []c11Flight {
	var out []c11Flight
	w, err := e.aFlight(aSecret(0), pb.TransportType_Min, 0, 0)
	if err != nil {
		tb.Fatalf("harness problem: min flight: %v", err)
	}
	out = append(out, c11Flight{"min", aJoin(w)})
	for i, id := range aPrefixIDs {
		w, err := e.aFlight(aSecret(3+i), pb.TransportType_Prefix, id, 0)
		if err != nil {
			tb.Fatalf("harness problem: prefix flight %d: %v", id, err)
		}
		out = append(out, c11Flight{fmt.Sprintf("prefix-%d", id), aJoin(w)})
	}
	if withObfs4 {
		hs, err := e.aObfs4Handshake(aSecret(13))
		if err != nil {
			tb.Fatalf("harness problem: obfs4 handshake: %v", err)
		}
		out = append(out, c11Flight{"obfs4", hs})
	}
	return out
}

// ---- wrap -----------------------------------------------------------------------------------------

type c11WrapCase struct {
	Data    vh.Hex        `json:"data"`
	V6      bool          `json:"v6,omitempty"`
	Variant int           `json:"registry"`
	RegMsgs []vh.Hex      `json:"reg_msgs,omitempty"` // registration messages ingested (real ingest path) on top of the registry variant
	Flight  *c11FlightSel `json:"flight,omitempty"`   // genuine flight for one of the registrations they created, sent in front of data
	Kind    string        `json:"kind,omitempty"`
}

func c11ErrName(err error) string {
	switch {
	case err == nil:
		return "wrapped"
	case errors.Is(err, transports.ErrTryAgain):
		return "try-again"
	case errors.Is(err, transports.ErrNotTransport):
		return "not-transport"
	}
	return "error"
}

func c11WrapRun(e *c11AppEnv, c c11WrapCase) (entry string, classes []string, nontrivial bool, o c11h.Outcome) {
	e.c11ResetRegistry(c.Variant)
	created, gcls, o := e.c11Ingest(c.RegMsgs)
	if o.Hung || o.Inconclusive || o.Panic != nil {
		return "wrap:ingest", gcls, true, o
	}
	ph, data, fcls, err := e.c11BuildFlight(created, c.Flight, c.Data, c.V6)
	if err != nil {
		ph, data, fcls = aPhantom(0, c.V6), c.Data, []string{"flight-build-failed"}
	}
	classes = append(append(classes, gcls...), fcls...)
	var cls []string
	defer func() {
		if o.Hung || o.Inconclusive || o.Panic != nil {
			e.dirty = true
		}
	}()
	o = c11h.Guard(c11h.Bound, func() {
		for tt, t := range e.rm.GetWrappingTransports() {
			buf := bytes.NewBuffer(append([]byte(nil), data...))
			conn := vconn.New(vconn.Script{End: "eof", Remote: "203.0.113.77:5555"})
			reg, wrapped, err := t.WrapConnection(buf, conn, ph, e.rm)
			res := c11ErrName(err)
			cls = append(cls, tt.String()+":"+res)
			if err == nil {
				e.dirty = true
			}
			if err == nil && wrapped != nil {
				_, _ = io.Copy(io.Discard, io.LimitReader(wrapped, 1<<20))
				if r, ok := reg.(*cj.DecoyRegistration); ok {
					e.rm.MarkActive(r)
					for _, g := range created {
						if g == r {
							cls = append(cls, "generated-reg-recognised", "generated-reg-recognised:"+tt.String())
						}
					}
				}
			}
		}
	})
	if o.Hung || o.Inconclusive {
		return "wrap", []string{"gave-up-waiting"}, true, o
	}
	for _, k := range cls {
		if k == "Min:wrapped" || k == "Prefix:wrapped" || k == "Obfs4:wrapped" || k == "Prefix:error" || k == "Obfs4:error" {
			classes = append(classes, "deep")
			break
		}
	}
	nontrivial = len(data) >= 32 && e.rm.CountRegistrations(ph) > 0
	return "wrap", append(classes, cls...), nontrivial, o
}

func c11WrapCheck(t vh.Fataler, rec *vh.Rec, e *c11AppEnv, c c11WrapCase, fuzz bool) {
	entry, classes, nontrivial, o := c11WrapRun(e, c)
	classes = append(classes, c11h.Source(fuzz), fmt.Sprintf("registry:%d", c.Variant))
	if c.Kind != "" {
		classes = append(classes, "kind:"+c.Kind)
	}
	c11h.Report(t, rec, c11WrapSub, entry, c, vh.Digest(c), o, nontrivial, classes...)
}

const c11WrapRule = "received-so-far bytes -> WrapConnection of min, prefix and obfs4 over a registry with registrations of every transport (min, prefix x 10 ids, obfs4, dtls; variants: all valid / empty / obfs4 only / tracked but unvalidated), wrapped connections read to EOF; generated: genuine first flights of the real client transports (intact, truncated at every length class, bit-flipped, with the static prefix of another id, with garbage appended), look-alike prefixes + garbage, random bytes of lengths around every threshold (0..8193); non-trivial = at least 32 bytes against a non-empty registry (a tag is extracted and looked up); distinct by case"

// c11FlightBytes draws attacker bytes derived from genuine flights (see rule).
func c11FlightBytes(rt *rapid.T, flights []c11Flight) (data []byte, kind string) {
	kind = rapid.SampledFrom([]string{"genuine", "genuine+tail", "truncated", "bitflip", "other-prefix", "lookalike", "random", "random", "short"}).Draw(rt, "kind")
	fl := rapid.SampledFrom(flights).Draw(rt, "flight")
	switch kind {
	case "genuine":
		data = append([]byte(nil), fl.Data...)
	case "genuine+tail":
		n := rapid.SampledFrom([]int{1, 2, 16, 100, 1500, 5000}).Draw(rt, "tail")
		data = append(append([]byte(nil), fl.Data...), c11h.Bytes(rt, "tailbytes", []int{n})...)
	case "truncated":
		n := rapid.IntRange(0, len(fl.Data)).Draw(rt, "cut")
		data = append([]byte(nil), fl.Data[:n]...)
	case "bitflip":
		data = append([]byte(nil), fl.Data...)
		p := rapid.IntRange(0, len(data)*8-1).Draw(rt, "bit")
		data[p/8] ^= 1 << uint(p%8)
	case "other-prefix":
		// the tag of one flight behind the static prefix of another prefix id (or none)
		tag := fl.Data
		if len(tag) > 64 {
			tag = tag[len(tag)-64:]
		}
		head := rapid.SampledFrom(c11Statics).Draw(rt, "head")
		data = append(append([]byte(nil), head...), tag...)
	case "lookalike":
		head := rapid.SampledFrom(c11Statics).Draw(rt, "head")
		n := rapid.SampledFrom([]int{0, 1, 31, 32, 33, 63, 64, 65, 128, 4096}).Draw(rt, "len")
		data = append(append([]byte(nil), head...), c11h.Bytes(rt, "garbage", []int{n})...)
	case "short":
		data = c11h.Bytes(rt, "short", []int{0, 1, 2, 5, 16, 31})
	default:
		n := rapid.SampledFrom(aLens).Draw(rt, "len")
		data = c11h.Bytes(rt, "random", []int{n})
	}
	return data, kind
}

var c11Statics = [][]byte{{}, []byte("GET / HTTP/1.1\r\n"), []byte("POST / HTTP/1.1\r\n"), []byte("HTTP/1.1 200\r\n"), []byte("\x16\x03\x03\x40\x00\x01"),
	[]byte("\x16\x03\x03\x40\x00\x02\r\n"), []byte("\x15\x03\x01\x00\x02"), []byte("\x15\x03\x02\x00\x02"), []byte("\x05\xDC\x5F\xE0\x01\x20"), []byte("SSH-2.0-OpenSSH_8.9p1"),
	[]byte("GET /"), []byte("\x16\x03"), []byte("SSH-2.0-OpenSSH_8.9p")}

func c11Variant(rt *rapid.T) int {
	return rapid.SampledFrom([]int{0, 0, 0, 0, 0, 1, 2, 3}).Draw(rt, "registry")
}

// c11WrapSeeds returns (data, regmsg, cfg) seeds: the byte-level seeds against the fixed registries
// (no registration message) and the generated-registry seeds.
func c11WrapSeeds(flights []c11Flight) [][]any {
	var out [][]any
	for _, s := range c11RawSeeds(flights) {
		out = append(out, []any{s[0], []byte{}, s[1]})
	}
	return append(out, c11GenSeeds()...)
}

func c11RawSeeds(flights []c11Flight) [][]any {
	var out [][]any
	for _, fl := range flights {
		out = append(out, []any{fl.Data, uint16(0)}, []any{append(append([]byte(nil), fl.Data...), []byte("GET / HTTP/1.1\r\n\r\n")...), uint16(2)})
		if len(fl.Data) > 40 {
			out = append(out, []any{fl.Data[:31], uint16(0)}, []any{fl.Data[:len(fl.Data)-1], uint16(0)})
		}
	}
	for _, s := range c11Statics {
		out = append(out, []any{s, uint16(0)}, []any{append(append([]byte(nil), s...), bytes.Repeat([]byte{0xff}, 64)...), uint16(0)})
	}
	out = append(out, []any{[]byte{}, uint16(0)}, []any{bytes.Repeat([]byte{0}, 31), uint16(0)}, []any{bytes.Repeat([]byte{0}, 32), uint16(0)},
		[]any{bytes.Repeat([]byte{0xaa}, 63), uint16(8)}, []any{bytes.Repeat([]byte{0xaa}, 64), uint16(8)}, []any{bytes.Repeat([]byte{0x55}, 8192), uint16(8)},
		[]any{bytes.Repeat([]byte{0x55}, 8193), uint16(0)}, []any{bytes.Repeat([]byte{1}, 70), uint16(4)}, []any{bytes.Repeat([]byte{1}, 70), uint16(12)})
	return out
}

func TestVerif_C11_wrap(t *testing.T) {
	rec := c11h.Rec(c11WrapSub, c11WrapRule)
	defer rec.Flush()
	defer aSilenceStdout()()
	e := c11NewAppEnv(t)
	if p := vh.ReplayFile(); p != "" {
		var c c11WrapCase
		if _, _, err := vh.LoadReplay(p, &c); err != nil {
			t.Fatal(err)
		}
		c11WrapCheck(t, rec, e, c, false)
		return
	}
	rec.Require("deep", "Min:wrapped", "Prefix:wrapped", "Obfs4:wrapped", "Prefix:error", "Min:try-again", "Prefix:try-again", "Obfs4:try-again",
		"Min:not-transport", "Prefix:not-transport", "Obfs4:not-transport", "kind:short", "kind:truncated", "kind:other-prefix",
		"gen:accepted", "gen:rejected", "gen:accepted:Prefix", "gen:accepted:Min", "gen:accepted:Obfs4", "gen:accepted-params-nil:Prefix", "gen:accepted-params-nil:Min",
		"gen:accepted-prefix-id-omitted", "genuine-flight-for-accepted-generated-reg", "genuine-flight-for-params-nil-reg",
		"generated-reg-recognised:Prefix", "generated-reg-recognised:Min", "generated-reg-recognised:Obfs4")
	flights := e.c11Flights(t, true)
	if err := c11h.WriteCorpus("FuzzVerif_C11_wrap", c11WrapSeeds(flights)); err != nil {
		t.Fatalf("harness problem: %v", err)
	}
	rapid.Check(t, func(rt *rapid.T) {
		c := c11WrapCase{V6: rapid.IntRange(0, 3).Draw(rt, "v6") == 3, Variant: c11Variant(rt)}
		c.Data, c.Kind, c.RegMsgs, c.Flight = c11DrawInput(rt, flights)
		c11WrapCheck(rt, rec, e, c, false)
	})
}

// c11DrawInput draws what is sent and what was registered before: half of the cases use only the
// fixed registries and byte streams derived from their genuine flights; the other half also ingest
// generated registration messages and mostly send a genuine flight for one of them (data = tail).
func c11DrawInput(rt *rapid.T, flights []c11Flight) (data []byte, kind string, msgs []vh.Hex, fl *c11FlightSel) {
	if rapid.Bool().Draw(rt, "generated_registry") {
		msgs, fl = c11GenRegistry(rt)
	}
	if fl != nil {
		n := rapid.SampledFrom([]int{0, 0, 1, 16, 100, 1500}).Draw(rt, "taillen")
		return c11h.Bytes(rt, "tail", []int{n}), "generated-flight", msgs, fl
	}
	data, kind = c11FlightBytes(rt, flights)
	return data, kind, msgs, nil
}

// cfg: bit 1 ipv6 phantom, bits 2-3 registry variant, bits 4-7 genuine flight for the registration
// message (see c11FlightFromSel), bits 8-9 which created registration, bit 10 probe the fixed phantom
func FuzzVerif_C11_wrap(f *testing.F) {
	rec := c11h.Rec(c11WrapSub, c11WrapRule)
	defer rec.Flush()
	defer aSilenceStdout()()
	e := c11NewAppEnv(f)
	for _, s := range c11WrapSeeds(e.c11Flights(f, true)) {
		f.Add(s...)
	}
	f.Fuzz(func(t *testing.T, data []byte, regmsg []byte, cfg uint16) {
		if len(data) > 20000 || len(regmsg) > 4096 {
			return
		}
		c := c11WrapCase{Data: data, Variant: int(cfg>>2) & 3, V6: cfg&2 != 0}
		if len(regmsg) > 0 {
			c.RegMsgs, c.Flight = []vh.Hex{regmsg}, c11FlightFromSel(cfg)
		}
		c11WrapCheck(t, rec, e, c, true)
	})
}

// ---- conn -----------------------------------------------------------------------------------------

type c11ConnCase struct {
	Data    vh.Hex        `json:"data"`
	Cuts    []int         `json:"cuts"` // segment lengths; what is left arrives as one last segment
	V6      bool          `json:"v6,omitempty"`
	Variant int           `json:"registry"`
	RegMsgs []vh.Hex      `json:"reg_msgs,omitempty"` // as in the wrap sub-check
	Flight  *c11FlightSel `json:"flight,omitempty"`
	End     string        `json:"end"` // how the peer ends after the data: eof | reset | timeout
	Kind    string        `json:"kind,omitempty"`
}

func (c c11ConnCase) script(stream []byte) vconn.Script {
	var steps []vconn.Step
	rest := stream
	for _, k := range c.Cuts {
		if len(rest) == 0 {
			break
		}
		if k < 1 {
			k = 1
		}
		if k > len(rest) {
			k = len(rest)
		}
		steps = append(steps, vconn.Step{Data: vh.Hex(rest[:k])})
		rest = rest[k:]
	}
	if len(rest) > 0 {
		steps = append(steps, vconn.Step{Data: vh.Hex(rest)})
	}
	end := c.End
	if end == "" {
		end = "eof"
	}
	s := vconn.Script{Reads: steps, End: end, Remote: "203.0.113.77:5555"}
	if c.V6 {
		s.Remote = "[2001:db8::77]:5555"
	}
	return s
}

func c11ConnRun(e *c11AppEnv, c c11ConnCase) (entry string, classes []string, nontrivial bool, o c11h.Outcome) {
	e.c11ResetRegistry(c.Variant)
	created, gcls, o := e.c11Ingest(c.RegMsgs)
	if o.Hung || o.Inconclusive || o.Panic != nil {
		return "conn:ingest", gcls, true, o
	}
	ph, stream, fcls, err := e.c11BuildFlight(created, c.Flight, c.Data, c.V6)
	if err != nil {
		ph, stream, fcls = aPhantom(0, c.V6), c.Data, []string{"flight-build-failed"}
	}
	classes = append(append(classes, gcls...), fcls...)
	entry = "conn"
	onPhantom := e.rm.CountRegistrations(ph)
	cm := newConnManager(nil) // fresh state counters for every case
	script := c.script(stream)
	conn := vconn.New(script)
	conn.WaitLimit = c11h.Bound
	done := make(chan c11h.Outcome, 1)
	go func() {
		done <- c11h.Guard(4*c11h.Bound, func() { cm.handleNewTCPConn(e.rm, conn, ph) })
	}()
	sleeping := func() bool {
		return atomic.LoadInt64(&cm.ipv4.numCheckToError)+atomic.LoadInt64(&cm.ipv6.numCheckToError) > 0
	}
	watch := c11h.NewWatch(c11h.Bound)
	tick := time.NewTicker(200 * time.Microsecond)
	defer tick.Stop()
	designSleep := false
wait:
	for {
		select {
		case o = <-done:
			break wait
		case <-tick.C:
			if sleeping() {
				// the handler sleeps until its classification deadline on purpose; not a hang
				designSleep = true
				break wait
			}
			if hung, inc := watch.Verdict(); hung || inc {
				o = c11h.Outcome{Hung: hung, Inconclusive: inc, Dur: watch.Elapsed()}
				break wait
			}
		}
	}
	st := &cm.ipv4
	if ph.To4() == nil {
		st = &cm.ipv6
	}
	if o.Hung || o.Inconclusive || o.Panic != nil || designSleep || atomic.LoadInt64(&st.numFound) > 0 {
		e.dirty = true
	}
	switch {
	case o.Hung || o.Inconclusive || o.Panic != nil:
	case designSleep:
		classes = append(classes, "transport-error-sleep")
	case atomic.LoadInt64(&st.numFound) > 0:
		classes = append(classes, "registration-found")
	case onPhantom == 0:
		classes = append(classes, "no-registration-drain")
	case atomic.LoadInt64(&st.numCheckToDiscard) > 0:
		classes = append(classes, "ran-out-of-transports")
	default:
		classes = append(classes, "gave-up-on-"+script.End)
	}
	if len(c.Cuts) > 0 {
		classes = append(classes, "segmented")
	}
	if atomic.LoadInt64(&st.numFound) > 0 && c.Flight != nil && len(created) > 0 {
		classes = append(classes, "found-with-generated-flight")
	}
	nontrivial = len(stream) >= 32 && onPhantom > 0
	return entry, classes, nontrivial, o
}

func c11ConnCheck(t vh.Fataler, rec *vh.Rec, e *c11AppEnv, c c11ConnCase, fuzz bool) {
	entry, classes, nontrivial, o := c11ConnRun(e, c)
	classes = append(classes, c11h.Source(fuzz), fmt.Sprintf("registry:%d", c.Variant))
	if c.Kind != "" {
		classes = append(classes, "kind:"+c.Kind)
	}
	c11h.Report(t, rec, c11ConnSub, entry, c, vh.Digest(c), o, nontrivial, classes...)
}

const c11ConnRule = "handleNewTCPConn on a scripted connection: the same byte streams as the wrap sub-check, delivered in 1-9 drawn segments and followed by EOF (sometimes reset / deadline), against the same registries, v4 and v6 phantom; non-trivial = at least 32 bytes against a phantom that has registrations (transports are consulted); classes by how the handler ended (registration found -> tunnel whose covert dial is refused, deliberate sleep after a transport error, ran out of transports, gave up on the read error, no-registration drain); distinct by case"

func c11ConnSeeds(flights []c11Flight) [][]any {
	var out [][]any
	for _, s := range c11WrapSeeds(flights) {
		data := s[0].([]byte)
		out = append(out, []any{data, []byte{}, s[1], s[2]})
		if len(data) > 4 {
			out = append(out, []any{data, []byte{0, 0, 3}, s[1], s[2]})
		}
		if len(s[1].([]byte)) == 0 && len(data) > 4 {
			out = append(out, []any{data, []byte{byte(len(data) / 34)}, s[1], s[2]})
		}
	}
	return out
}

// c11SegCuts turns fuzz bytes into segment lengths 1..4336.
func c11SegCuts(seg []byte) []int {
	if len(seg) > 16 {
		seg = seg[:16]
	}
	var cuts []int
	for _, b := range seg {
		cuts = append(cuts, 1+int(b)*17)
	}
	return cuts
}

func TestVerif_C11_conn(t *testing.T) {
	rec := c11h.Rec(c11ConnSub, c11ConnRule)
	defer rec.Flush()
	defer aSilenceStdout()()
	e := c11NewAppEnv(t)
	if p := vh.ReplayFile(); p != "" {
		var c c11ConnCase
		if _, _, err := vh.LoadReplay(p, &c); err != nil {
			t.Fatal(err)
		}
		c11ConnCheck(t, rec, e, c, false)
		return
	}
	rec.Require("registration-found", "transport-error-sleep", "ran-out-of-transports", "gave-up-on-eof", "no-registration-drain", "segmented", "kind:short", "kind:truncated",
		"gen:accepted", "gen:accepted-params-nil:Prefix", "genuine-flight-for-accepted-generated-reg", "genuine-flight-for-params-nil-reg", "found-with-generated-flight")
	flights := e.c11Flights(t, true)
	if err := c11h.WriteCorpus("FuzzVerif_C11_conn", c11ConnSeeds(flights)); err != nil {
		t.Fatalf("harness problem: %v", err)
	}
	rapid.Check(t, func(rt *rapid.T) {
		c := c11ConnCase{V6: rapid.IntRange(0, 3).Draw(rt, "v6") == 3, Variant: c11Variant(rt),
			End: rapid.SampledFrom([]string{"eof", "eof", "eof", "reset", "timeout"}).Draw(rt, "end")}
		c.Data, c.Kind, c.RegMsgs, c.Flight = c11DrawInput(rt, flights)
		nseg := rapid.SampledFrom([]int{0, 0, 1, 2, 4, 8}).Draw(rt, "nseg")
		for i := 0; i < nseg; i++ {
			c.Cuts = append(c.Cuts, rapid.SampledFrom([]int{1, 2, 5, 16, 31, 32, 33, 63, 64, 65, 100, 1000, 4096, 5000}).Draw(rt, "cut"))
		}
		c11ConnCheck(rt, rec, e, c, false)
	})
}

func FuzzVerif_C11_conn(f *testing.F) {
	rec := c11h.Rec(c11ConnSub, c11ConnRule)
	defer rec.Flush()
	defer aSilenceStdout()()
	e := c11NewAppEnv(f)
	for _, s := range c11ConnSeeds(e.c11Flights(f, true)) {
		f.Add(s...)
	}
	f.Fuzz(func(t *testing.T, data []byte, seg []byte, regmsg []byte, cfg uint16) {
		if len(data) > 20000 || len(regmsg) > 4096 {
			return
		}
		c := c11ConnCase{Data: data, Cuts: c11SegCuts(seg), Variant: int(cfg>>2) & 3, V6: cfg&2 != 0, End: "eof"}
		if len(regmsg) > 0 {
			c.RegMsgs, c.Flight = []vh.Hex{regmsg}, c11FlightFromSel(cfg)
		}
		c11ConnCheck(t, rec, e, c, true)
	})
}
