package main

// Shared harness for the /verif checks that drive the station's connection handler
// (C02, C03, C04, C17). Injected with `go test -overlay`; never exists in /repo.

import (
	"encoding/binary"
	"fmt"
	"io"
	"net"
	"os"
	"sync"
	"testing"
	"time"

	"github.com/refraction-networking/conjure/pkg/core"
	cj "github.com/refraction-networking/conjure/pkg/station/lib"
	"github.com/refraction-networking/conjure/pkg/station/log"
	"github.com/refraction-networking/conjure/pkg/transports/wrapping/min"
	"github.com/refraction-networking/conjure/pkg/transports/wrapping/obfs4"
	"github.com/refraction-networking/conjure/pkg/transports/wrapping/prefix"
	pb "github.com/refraction-networking/conjure/proto"
	"golang.org/x/crypto/curve25519"
	"google.golang.org/protobuf/proto"
	"google.golang.org/protobuf/types/known/anypb"
)

const aSubnets = `
[Networks]
    [Networks.957]
        Generation = 957
        [[Networks.957.WeightedSubnets]]
            Weight = 9
            RandomizeDstPort = true
            Subnets = ["192.122.190.0/24", "2001:48a8:687f:1::/64"]
`

type aGeo struct{}

func (aGeo) CC(net.IP) (string, error) { return "US", nil }
func (aGeo) ASN(net.IP) (uint, error)  { return 64512, nil }

type aTester struct{}

func (aTester) PhantomIsLive(string, uint16) (bool, error) { return false, nil }
func (aTester) PrintAndReset(*log.Logger)                  {}
func (aTester) PrintStats(*log.Logger)                     {}
func (aTester) Reset()                                     {}

type aAnn struct {
	Op      string
	Phantom string
	Secret  string
	Reg     *cj.DecoyRegistration
}

type aEnv struct {
	tb   testing.TB
	rm   *cj.RegistrationManager
	cm   *connManager
	priv [32]byte
	pub  [32]byte
	// a second station key pair: the station supports several keys (key rotation); a client may have
	// been built with the public key of any of them
	priv2 [32]byte
	pub2  [32]byte
	mu    sync.Mutex
	anns []aAnn
	cov  *aCovert
}

var aSetupMu sync.Mutex

// aSilenceStdout points os.Stdout (which the per-connection loggers are created from at call time)
// to /dev/null so thousands of cases do not flood the test log. Returns a restore function.
func aSilenceStdout() func() {
	if os.Getenv("VERIF_NOSILENCE") != "" {
		return func() {}
	}
	old := os.Stdout
	f, err := os.OpenFile(os.DevNull, os.O_WRONLY, 0)
	if err != nil {
		return func() {}
	}
	os.Stdout = f
	return func() { os.Stdout = old; f.Close() }
}

// aNewEnv builds a fresh RegistrationManager with the real min / obfs4 / prefix transports.
func aNewEnv(tb testing.TB) *aEnv {
	tb.Helper()
	aSetupMu.Lock()
	defer aSetupMu.Unlock()
	p := tb.TempDir() + "/phantom_subnets.toml"
	if err := os.WriteFile(p, []byte(aSubnets), 0o644); err != nil {
		tb.Fatalf("harness problem: %v", err)
	}
	os.Setenv("PHANTOM_SUBNET_LOCATION", p)
	rm := cj.NewRegistrationManager(&cj.RegConfig{EnableIPv4: true, EnableIPv6: true})
	if rm == nil {
		tb.Fatalf("harness problem: NewRegistrationManager returned nil")
	}
	e := &aEnv{tb: tb, rm: rm, cm: newConnManager(nil)}
	rm.GeoIP = aGeo{}
	rm.LivenessTester = aTester{}
	rm.Logger = log.New(io.Discard, "[REG] ", 0)
	for i := range e.priv {
		e.priv[i] = byte(i*11 + 3)
	}
	e.priv[0] &= 248
	e.priv[31] &= 127
	e.priv[31] |= 64
	pub, err := curve25519.X25519(e.priv[:], curve25519.Basepoint)
	if err != nil {
		tb.Fatalf("harness problem: %v", err)
	}
	copy(e.pub[:], pub)
	for i := range e.priv2 {
		e.priv2[i] = byte(i*13 + 7)
	}
	e.priv2[0] &= 248
	e.priv2[31] &= 127
	e.priv2[31] |= 64
	pub2, err := curve25519.X25519(e.priv2[:], curve25519.Basepoint)
	if err != nil {
		tb.Fatalf("harness problem: %v", err)
	}
	copy(e.pub2[:], pub2)
	pt, err := prefix.Default([][32]byte{e.priv, e.priv2})
	if err != nil {
		tb.Fatalf("harness problem: prefix.Default: %v", err)
	}
	_ = rm.AddTransport(pb.TransportType_Min, min.Transport{})
	_ = rm.AddTransport(pb.TransportType_Obfs4, obfs4.Transport{})
	_ = rm.AddTransport(pb.TransportType_Prefix, pt)
	cj.VerifSetDetectorHooks(rm,
		func(d *cj.DecoyRegistration) { e.ann("New", d) },
		func(d *cj.DecoyRegistration) { e.ann("Update", d) })
	return e
}

func (e *aEnv) ann(op string, d *cj.DecoyRegistration) {
	e.mu.Lock()
	e.anns = append(e.anns, aAnn{Op: op, Phantom: d.PhantomIp.String(), Secret: fmt.Sprintf("%x", d.Keys.SharedSecret), Reg: d})
	e.mu.Unlock()
}

func (e *aEnv) Anns() []aAnn {
	e.mu.Lock()
	defer e.mu.Unlock()
	return append([]aAnn(nil), e.anns...)
}

func (e *aEnv) ClearAnns() {
	e.mu.Lock()
	e.anns = nil
	e.mu.Unlock()
}

// aSecret returns a deterministic 32-byte secret for index i.
func aSecret(i int) []byte {
	s := make([]byte, 32)
	binary.BigEndian.PutUint64(s, 0xAB5EC00000000000|uint64(i))
	for j := 8; j < 32; j++ {
		s[j] = byte(i*37 + j*5 + 1)
	}
	return s
}

// aPhantom returns the k-th test phantom (inside the configured subnet).
func aPhantom(k int, v6 bool) net.IP {
	if v6 {
		return net.ParseIP(fmt.Sprintf("2001:48a8:687f:1::%x", 0x100+k))
	}
	return net.IPv4(192, 122, 190, byte(10+k)).To4()
}

var aTT = []pb.TransportType{pb.TransportType_Min, pb.TransportType_Prefix, pb.TransportType_Obfs4}

// aRegSpec describes one registration to create.
type aRegSpec struct {
	Secret   int    `json:"secret"`
	TT       int    `json:"tt"` // index into aTT
	PrefixID int32  `json:"prefix_id,omitempty"`
	Phantom  int    `json:"phantom"`
	V6       bool   `json:"v6,omitempty"`
	Covert   string `json:"covert,omitempty"`
	// attributes a client / registrar controls that must not influence matching
	Prescanned   bool `json:"prescanned,omitempty"`     // flags.prescanned set
	OmitPrefixID bool `json:"omit_prefix_id,omitempty"` // prefix params present but without prefix_id (the station reads that as prefix 0)
	Source       int  `json:"source,omitempty"`         // index into aSources
}

var aSources = []pb.RegistrationSource{pb.RegistrationSource_API, pb.RegistrationSource_Detector, pb.RegistrationSource_DetectorPrescan, pb.RegistrationSource_BidirectionalAPI, pb.RegistrationSource_DNS}

// EffectivePrefix is the prefix id the station associates with the registration.
func (s aRegSpec) EffectivePrefix() int32 {
	if s.OmitPrefixID {
		return 0
	}
	return s.PrefixID
}

// aMakeReg builds a registration object through the station's real ingest constructor, pinned to
// the test phantom through a registrar response override.
func (e *aEnv) aMakeReg(s aRegSpec) (*cj.DecoyRegistration, error) {
	tt := aTT[s.TT]
	var m proto.Message
	if tt == pb.TransportType_Prefix {
		pp := &pb.PrefixTransportParams{PrefixId: proto.Int32(s.PrefixID), RandomizeDstPort: proto.Bool(false)}
		if s.OmitPrefixID {
			pp.PrefixId = nil
		}
		m = pp
	} else {
		m = &pb.GenericTransportParams{RandomizeDstPort: proto.Bool(false)}
	}
	params, err := anypb.New(m)
	if err != nil {
		return nil, err
	}
	covert := s.Covert
	if covert == "" {
		covert = "192.0.2.1:443"
	}
	c2s := &pb.ClientToStation{
		ClientLibVersion:    proto.Uint32(core.CurrentClientLibraryVersion()),
		DecoyListGeneration: proto.Uint32(957),
		CovertAddress:       proto.String(covert),
		V4Support:           proto.Bool(!s.V6),
		V6Support:           proto.Bool(s.V6),
		Transport:           tt.Enum(),
		TransportParams:     params,
		Flags:               &pb.RegistrationFlags{},
	}
	if s.Prescanned {
		c2s.Flags.Prescanned = proto.Bool(true)
	}
	rr := &pb.RegistrationResponse{}
	ph := aPhantom(s.Phantom, s.V6)
	if s.V6 {
		rr.Ipv6Addr = []byte(ph.To16())
	} else {
		rr.Ipv4Addr = proto.Uint32(binary.BigEndian.Uint32(ph.To4()))
	}
	w := &pb.C2SWrapper{
		SharedSecret:         aSecret(s.Secret),
		RegistrationPayload:  c2s,
		RegistrationSource:   aSources[s.Source%len(aSources)].Enum(),
		RegistrationAddress:  []byte(net.IPv4(198, 51, 100, 7).To4()),
		RegistrationResponse: rr,
	}
	return e.rm.NewRegistrationC2SWrapper(w, s.V6)
}

// capture conn ----------------------------------------------------------------------------------

type aCapture struct {
	writes [][]byte
}

func (c *aCapture) Read([]byte) (int, error) { return 0, io.EOF }
func (c *aCapture) Write(p []byte) (int, error) {
	c.writes = append(c.writes, append([]byte(nil), p...))
	return len(p), nil
}
func (c *aCapture) Close() error                     { return nil }
func (c *aCapture) LocalAddr() net.Addr              { return &net.TCPAddr{IP: net.IPv4(10, 0, 0, 1), Port: 1} }
func (c *aCapture) RemoteAddr() net.Addr             { return &net.TCPAddr{IP: net.IPv4(10, 0, 0, 2), Port: 2} }
func (c *aCapture) SetDeadline(time.Time) error      { return nil }
func (c *aCapture) SetReadDeadline(time.Time) error  { return nil }
func (c *aCapture) SetWriteDeadline(time.Time) error { return nil }

// aFlight returns the first flight the real client transport writes for (secret, transport,
// prefix id, flush policy), as the list of writes it made (flush boundaries).
func (e *aEnv) aFlight(secret []byte, tt pb.TransportType, prefixID int32, flush int32) ([][]byte, error) {
	return e.aFlightKey(secret, tt, prefixID, flush, 0)
}

// aFlightKey is aFlight for a client that was built with station key number `key` (0 or 1).
func (e *aEnv) aFlightKey(secret []byte, tt pb.TransportType, prefixID int32, flush int32, key int) ([][]byte, error) {
	stationPub := e.pub
	if key == 1 {
		stationPub = e.pub2
	}
	keys, err := core.GenSharedKeys(uint(core.CurrentClientLibraryVersion()), secret, tt)
	if err != nil {
		return nil, err
	}
	cc := &aCapture{}
	switch tt {
	case pb.TransportType_Min:
		ct := &min.ClientTransport{}
		if err := ct.PrepareKeys(stationPub, secret, keys.TransportReader); err != nil {
			return nil, err
		}
		if _, err := ct.WrapConn(cc); err != nil {
			return nil, err
		}
	case pb.TransportType_Prefix:
		ct := &prefix.ClientTransport{}
		if err := ct.SetParams(&prefix.ClientParams{PrefixID: prefixID, FlushPolicy: flush}); err != nil {
			return nil, err
		}
		if err := ct.PrepareKeys(stationPub, secret, keys.TransportReader); err != nil {
			return nil, err
		}
		if _, err := ct.WrapConn(cc); err != nil {
			return nil, err
		}
	default:
		return nil, fmt.Errorf("aFlight: transport %v has no byte-level flight", tt)
	}
	return cc.writes, nil
}

func aJoin(w [][]byte) []byte {
	var out []byte
	for _, x := range w {
		out = append(out, x...)
	}
	return out
}

// aPrefixIDs lists the prefix ids supported by default.
var aPrefixIDs = []int32{int32(prefix.Min), int32(prefix.GetLong), int32(prefix.PostLong), int32(prefix.HTTPResp),
	int32(prefix.TLSClientHello), int32(prefix.TLSServerHello), int32(prefix.TLSAlertWarning), int32(prefix.TLSAlertFatal),
	int32(prefix.DNSOverTCP), int32(prefix.OpenSSH2)}

// covert recorder --------------------------------------------------------------------------------

type aCovSession struct {
	mu       sync.Mutex
	Received []byte
	Done     chan struct{}
	conn     net.Conn
}

func (s *aCovSession) Bytes() []byte {
	s.mu.Lock()
	defer s.mu.Unlock()
	return append([]byte(nil), s.Received...)
}

// aCovert is a loopback TCP listener standing in for the covert destination. For each accepted
// connection it waits until `expectUp` bytes arrived, writes `reply`, then reads until EOF.
type aCovert struct {
	ln       net.Listener
	mu       sync.Mutex
	expectUp int
	reply    []byte
	sessions []*aCovSession
	// resetOnAccept makes the listener answer the next connections with an immediate RST
	resetOnAccept bool
	resets        int
	markers       map[string]chan struct{}
	// onReply, when set, is called by a session right before it writes its reply (i.e. once the
	// expected upstream bytes have arrived and while the tunnel is certainly still open)
	onReply func()
	// readDelay: every session waits this long before its first read (a covert that is slower
	// than the station's teardown)
	readDelay time.Duration
}

// SetReadDelay makes the next sessions wait before they start reading.
func (c *aCovert) SetReadDelay(d time.Duration) {
	c.mu.Lock()
	c.readDelay = d
	c.mu.Unlock()
}

// SetOnReply installs the mid-session hook for the next sessions.
func (c *aCovert) SetOnReply(f func()) {
	c.mu.Lock()
	c.onReply = f
	c.mu.Unlock()
}

// Sync returns once every connection that was established to the listener before the call has been
// accepted and recorded: it opens a marker connection (the accept queue is FIFO) and waits for it.
// Returns false if the marker was not seen within the limit (harness trouble).
func (c *aCovert) Sync(limit time.Duration) bool {
	ch := make(chan struct{})
	c.mu.Lock()
	conn, err := net.DialTimeout("tcp", c.ln.Addr().String(), limit)
	if err != nil {
		c.mu.Unlock()
		return false
	}
	if c.markers == nil {
		c.markers = map[string]chan struct{}{}
	}
	c.markers[conn.LocalAddr().String()] = ch
	c.mu.Unlock()
	defer conn.Close()
	select {
	case <-ch:
		return true
	case <-time.After(limit):
		return false
	}
}

// ArmReset makes the covert reset every connection as soon as it is accepted.
func (c *aCovert) ArmReset(on bool) {
	c.mu.Lock()
	c.resetOnAccept, c.resets, c.sessions = on, 0, nil
	c.mu.Unlock()
}

// Resets returns how many connections were reset since ArmReset.
func (c *aCovert) Resets() int {
	c.mu.Lock()
	defer c.mu.Unlock()
	return c.resets
}

func aNewCovert(tb testing.TB) *aCovert {
	ln, err := net.Listen("tcp", "127.0.0.1:0")
	if err != nil {
		tb.Fatalf("harness problem: listen: %v", err)
	}
	c := &aCovert{ln: ln}
	go func() {
		for {
			conn, err := ln.Accept()
			if err != nil {
				return
			}
			c.mu.Lock()
			if ch, ok := c.markers[conn.RemoteAddr().String()]; ok {
				delete(c.markers, conn.RemoteAddr().String())
				close(ch)
				conn.Close()
				c.mu.Unlock()
				continue
			}
			if c.resetOnAccept {
				if tc, ok := conn.(*net.TCPConn); ok {
					_ = tc.SetLinger(0)
				}
				conn.Close()
				c.resets++
				c.mu.Unlock()
				continue
			}
			s := &aCovSession{Done: make(chan struct{}), conn: conn}
			c.sessions = append(c.sessions, s)
			expect, reply, hook, delay := c.expectUp, c.reply, c.onReply, c.readDelay
			c.mu.Unlock()
			go func() {
				if delay > 0 {
					time.Sleep(delay)
				}
				s.run(expect, reply, hook)
			}()
		}
	}()
	return c
}

func (s *aCovSession) run(expect int, reply []byte, hook func()) {
	defer close(s.Done)
	defer s.conn.Close()
	buf := make([]byte, 32*1024)
	replied := false
	if expect == 0 {
		if hook != nil {
			hook()
		}
		_, _ = s.conn.Write(reply)
		replied = true
	}
	_ = s.conn.SetDeadline(time.Now().Add(60 * time.Second))
	for {
		n, err := s.conn.Read(buf)
		s.mu.Lock()
		s.Received = append(s.Received, buf[:n]...)
		have := len(s.Received)
		s.mu.Unlock()
		if !replied && have >= expect {
			if hook != nil {
				hook()
			}
			_, _ = s.conn.Write(reply)
			replied = true
		}
		if err != nil {
			return
		}
	}
}

func (c *aCovert) Addr() string { return c.ln.Addr().String() }
func (c *aCovert) Close()       { c.ln.Close() }

// Arm sets the behaviour for the next sessions and forgets old ones.
func (c *aCovert) Arm(expectUp int, reply []byte) {
	c.mu.Lock()
	c.expectUp, c.reply, c.sessions = expectUp, reply, nil
	c.mu.Unlock()
}

func (c *aCovert) Sessions() []*aCovSession {
	c.mu.Lock()
	defer c.mu.Unlock()
	return append([]*aCovSession(nil), c.sessions...)
}

// aRunHandler runs handleNewTCPConn and waits for it (bounded). ok=false means the handler did not
// return within the limit (harness trouble unless the caller expects a real-time wait).
func (e *aEnv) aRunHandler(conn net.Conn, phantom net.IP, limit time.Duration) (ok bool, panicked any, dur time.Duration) {
	done := make(chan any, 1)
	start := time.Now()
	go func() {
		defer func() { done <- recover() }()
		e.cm.handleNewTCPConn(e.rm, conn, phantom)
	}()
	select {
	case p := <-done:
		return true, p, time.Since(start)
	case <-time.After(limit):
		return false, nil, time.Since(start)
	}
}

// obfs4 handshake capture --------------------------------------------------------------------------

type aHsCapture struct {
	aCapture
	reading chan struct{}
	once    sync.Once
}

func (c *aHsCapture) Read([]byte) (int, error) {
	// the obfs4 client writes its whole handshake and then reads the server's answer
	c.once.Do(func() { close(c.reading) })
	return 0, io.EOF
}

// aObfs4Handshake returns the client handshake bytes the real obfs4 client transport sends for secret.
func (e *aEnv) aObfs4Handshake(secret []byte) ([]byte, error) {
	keys, err := core.GenSharedKeys(uint(core.CurrentClientLibraryVersion()), secret, pb.TransportType_Obfs4)
	if err != nil {
		return nil, err
	}
	ct := &obfs4.ClientTransport{}
	if err := ct.PrepareKeys(e.pub, secret, keys.TransportReader); err != nil {
		return nil, err
	}
	cc := &aHsCapture{reading: make(chan struct{})}
	done := make(chan struct{})
	go func() {
		defer close(done)
		_, _ = ct.WrapConn(cc) // fails with EOF once the handshake has been written
	}()
	select {
	case <-done:
	case <-time.After(10 * time.Second):
		return nil, fmt.Errorf("obfs4 client did not finish writing its handshake")
	}
	hs := aJoin(cc.writes)
	if len(hs) < 64 {
		return nil, fmt.Errorf("captured only %d handshake bytes", len(hs))
	}
	return hs, nil
}

// aPayload returns n deterministic pseudo-random bytes selected by (label, key).
func aPayload(key, n int, label string) []byte {
	out := make([]byte, 0, n+32)
	seed := []byte(fmt.Sprintf("verif-%s-%d", label, key))
	for ctr := 0; len(out) < n; ctr++ {
		out = append(out, core.ConjureHMAC(seed, fmt.Sprintf("%d", ctr))...)
	}
	return out[:n]
}

// aLens are stream lengths around every threshold the classification code has.
var aLens = []int{0, 1, 5, 31, 32, 33, 63, 64, 65, 69, 70, 71, 78, 79, 80, 81, 84, 85, 86, 100, 1000, 4095, 4096, 4097, 8191, 8192, 8193, 12000, 16384}
