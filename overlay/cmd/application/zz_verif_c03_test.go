package main

// C03 — unauthenticated connections get no bytes and no early close.
//
// Generated probe streams are fed to the real handleNewTCPConn through a scripted connection with
// a virtual clock (vconn). Oracle = invariants over the recorded connection: nothing written, the
// classification deadline set before the first read and inside [5 s,10 s], no Close and no return
// before 5 s of (virtual) time, and the handler keeps reading until a Read reports the deadline.

import (
	"path/filepath"
	"os"
	"errors"
	"bytes"
	"fmt"
	"net"
	"runtime"
	"strings"
	"sync"
	"testing"
	"time"

	"github.com/refraction-networking/conjure/pkg/core"
	"github.com/refraction-networking/conjure/pkg/station/geoip"
	cj "github.com/refraction-networking/conjure/pkg/station/lib"
	"pgregory.net/rapid"
	"verif/harness/vconn"
	"verif/harness/vh"
)

type c03Case struct {
	Regs   []aRegSpec   `json:"regs"`   // valid registrations in the registry
	Unval  []aRegSpec   `json:"unval"`  // tracked but not validated
	V6     bool         `json:"v6"`     // probed phantom family (phantom index 0)
	Kind   string       `json:"kind"`   // how the probe bytes were made
	Script vconn.Script `json:"script"` // the probe (End is always "hold": the prober never closes)
	Total  int          `json:"total_bytes"`
	PeerClass string    `json:"peer_class,omitempty"` // address class of the prober's source address (Script.Remote), see c03PeerGen
	Geo     *c03GeoAns  `json:"geo,omitempty"`    // what the station's GeoIP database answers for that source (nil: the environment's default stand-in)
	SweepAt int         `json:"sweep_at,omitempty"` // > 0: before the SweepAt-th segment is read every registration passes its lifetime and the sweeper runs (the phantom has none left while the connection is still open)
}

var c03Lookalikes = [][]byte{
	[]byte("\x16\x03\x01\x02\x00\x01\x00\x01\xfc\x03\x03"),
	[]byte("GET / HTTP/1.1\r\nHost: example.com\r\n\r\n"),
	[]byte("POST /x HTTP/1.1\r\nContent-Length: 3\r\n\r\nabc"),
	[]byte("SSH-2.0-OpenSSH_8.9p1 Ubuntu-3\r\n"),
	[]byte("HTTP/1.1 200 OK\r\n\r\n"),
	[]byte("\x05\xDC\x5F\xE0\x01\x20"),
}

var c03Static = [][]byte{
	{}, []byte("GET / HTTP/1.1\r\n"), []byte("POST / HTTP/1.1\r\n"), []byte("HTTP/1.1 200\r\n"),
	[]byte("\x16\x03\x03\x40\x00\x01"), []byte("\x16\x03\x03\x40\x00\x02\r\n"), []byte("\x15\x03\x01\x00\x02"),
	[]byte("\x15\x03\x02\x00\x02"), []byte("\x05\xDC\x5F\xE0\x01\x20"), []byte("SSH-2.0-OpenSSH_8.9p1"),
}

func c03RegGen(rt *rapid.T, label string, v6 bool) []aRegSpec {
	n := rapid.SampledFrom([]int{0, 0, 1, 1, 2, 3, 5}).Draw(rt, label+"_n")
	var out []aRegSpec
	for i := 0; i < n; i++ {
		s := aRegSpec{
			Secret:  rapid.IntRange(0, 5).Draw(rt, label+"_secret"),
			TT:      rapid.IntRange(0, 2).Draw(rt, label+"_tt"),
			Phantom: rapid.SampledFrom([]int{0, 0, 0, 1, 2}).Draw(rt, label+"_phantom"),
			V6:      v6,
		}
		if s.TT == 1 {
			s.PrefixID = rapid.SampledFrom(aPrefixIDs).Draw(rt, label+"_prefix")
		}
		out = append(out, s)
	}
	return out
}

func c03Bytes(rt *rapid.T, n int, label string) []byte {
	if n == 0 {
		return nil
	}
	// a 16-byte drawn seed expanded deterministically: large random payloads without huge draws
	seed := rapid.SliceOfN(rapid.Byte(), 16, 16).Draw(rt, label)
	out := make([]byte, 0, n+32)
	ctr := 0
	for len(out) < n {
		out = append(out, core.ConjureHMAC(seed, fmt.Sprintf("c03-%d", ctr))...)
		ctr++
	}
	return out[:n]
}


func c03Gen(rt *rapid.T, e *aEnv) c03Case {
	c := c03Case{V6: rapid.IntRange(0, 4).Draw(rt, "v6") == 0}
	c.Regs = c03RegGen(rt, "reg", c.V6)
	c.Unval = nil
	if rapid.IntRange(0, 3).Draw(rt, "has_unval") == 0 {
		c.Unval = c03RegGen(rt, "unval", c.V6)
	}
	kind := rapid.SampledFrom([]string{"random", "random", "lookalike", "static+garbage", "static+garbage", "flip-genuine", "flip-genuine",
		"wrong-phantom", "unvalidated", "unknown-secret", "obfs4-long", "constant-fill", "static+constant-fill"}).Draw(rt, "kind")
	var data []byte
	switch kind {
	case "random":
		n := rapid.SampledFrom(aLens).Draw(rt, "len")
		data = c03Bytes(rt, n, "rnd")
	case "constant-fill", "static+constant-fill":
		// degenerate values for the key-agreement step behind a tag position (all-zero / all-one
		// representatives are low-order points), and other constant fills
		var head []byte
		if kind == "static+constant-fill" {
			head = rapid.SampledFrom(c03Static).Draw(rt, "head")
		}
		fill := rapid.SampledFrom([]byte{0x00, 0x00, 0xff, 0x01, 0x7f, 0x80, 0xec}).Draw(rt, "fill")
		n := rapid.SampledFrom([]int{31, 32, 33, 63, 64, 65, 100, 1000, 4096, 8192, 9000}).Draw(rt, "len")
		data = append(append([]byte(nil), head...), bytes.Repeat([]byte{fill}, n)...)
		if rapid.Bool().Draw(rt, "tail") {
			data = append(data, c03Bytes(rt, rapid.SampledFrom([]int{1, 500, 5000}).Draw(rt, "taillen"), "tail")...)
		}
		// a prefix registration must exist for the tag to be examined at all
		if rapid.IntRange(0, 2).Draw(rt, "addprefixreg") > 0 {
			c.Regs = append(c.Regs, aRegSpec{Secret: rapid.IntRange(0, 5).Draw(rt, "csecret"), TT: 1, PrefixID: rapid.SampledFrom(aPrefixIDs).Draw(rt, "cprefix"), Phantom: 0, V6: c.V6})
		}
	case "lookalike":
		head := rapid.SampledFrom(c03Lookalikes).Draw(rt, "head")
		n := rapid.SampledFrom(aLens).Draw(rt, "len")
		data = append(append([]byte(nil), head...), c03Bytes(rt, n, "rnd")...)
	case "static+garbage":
		head := rapid.SampledFrom(c03Static).Draw(rt, "head")
		n := rapid.SampledFrom([]int{0, 1, 31, 32, 33, 62, 63, 64, 65, 66, 128, 4096, 8192}).Draw(rt, "len")
		data = append(append([]byte(nil), head...), c03Bytes(rt, n, "rnd")...)
	case "flip-genuine", "wrong-phantom", "unvalidated", "unknown-secret":
		// a genuine min/prefix flight that is not valid on the probed phantom
		tt := rapid.IntRange(0, 1).Draw(rt, "ftt")
		pid := int32(0)
		if tt == 1 {
			pid = rapid.SampledFrom(aPrefixIDs).Draw(rt, "fprefix")
		}
		spec := aRegSpec{Secret: rapid.IntRange(0, 5).Draw(rt, "fsecret"), TT: tt, PrefixID: pid, Phantom: 0, V6: c.V6}
		// the same (secret, transport) must not also be validly registered on the probed phantom
		c.Regs = c03DropTwins(c.Regs, spec)
		switch kind {
		case "flip-genuine":
			c.Regs = append(c.Regs, spec)
		case "wrong-phantom":
			spec.Phantom = rapid.IntRange(1, 2).Draw(rt, "otherphantom")
			c.Regs = append(c.Regs, spec)
		case "unvalidated":
			c.Unval = append(c.Unval, spec)
		case "unknown-secret":
			spec.Secret = 40 + rapid.IntRange(0, 3).Draw(rt, "unk")
		}
		w, err := e.aFlight(aSecret(spec.Secret), aTT[tt], pid, 0)
		if err != nil {
			rt.Fatalf("harness problem: flight: %v", err)
		}
		data = aJoin(w)
		if kind == "flip-genuine" {
			off := len(data) - 64
			if tt == 0 {
				off = 0
			}
			tagLen := len(data) - off
			pos := rapid.IntRange(0, tagLen*8-1).Draw(rt, "flipbit")
			if tt == 1 && pos/8 == 31 && pos%8 >= 6 {
				pos -= 8 // the two high bits of the representative are padding by design; flip elsewhere
			}
			data[off+pos/8] ^= 1 << uint(pos%8)
		}
		extra := rapid.SampledFrom([]int{0, 0, 1, 100, 5000}).Draw(rt, "extra")
		data = append(data, c03Bytes(rt, extra, "extra")...)
	case "obfs4-long":
		n := rapid.SampledFrom([]int{8191, 8192, 8193, 9000, 16384}).Draw(rt, "len")
		data = c03Bytes(rt, n, "rnd")
		c.Regs = append(c.Regs, aRegSpec{Secret: rapid.IntRange(0, 5).Draw(rt, "osecret"), TT: 2, Phantom: 0, V6: c.V6})
	}
	c.Kind = kind
	c.Total = len(data)
	// segmentation and pacing
	var steps []vconn.Step
	rest := data
	nseg := rapid.SampledFrom([]int{1, 1, 2, 3, 5, 9}).Draw(rt, "nseg")
	for i := 0; i < nseg && len(rest) > 0; i++ {
		var k int
		if i == nseg-1 {
			k = len(rest)
		} else {
			k = rapid.IntRange(1, len(rest)).Draw(rt, "cut")
		}
		st := vconn.Step{Data: vh.Hex(rest[:k])}
		if rapid.IntRange(0, 2).Draw(rt, "haspause") == 0 {
			st.PauseMs = int64(rapid.SampledFrom([]int{1, 50, 900, 2500, 4999, 6000}).Draw(rt, "pause"))
		}
		steps = append(steps, st)
		rest = rest[k:]
	}
	c.Script = vconn.Script{Reads: steps, End: "hold"}
	// who is probing: the property holds for a connection from anywhere, so the source address (and
	// what the GeoIP database knows about it) is drawn like the rest of the case
	c.Script.Remote, c.PeerClass = c03PeerGen(rt, c.V6, "peer")
	c.Geo = c03GeoGen(rt, "geo")
	if len(steps) > 1 && rapid.IntRange(0, 3).Draw(rt, "sweepmid") == 0 {
		c.SweepAt = rapid.IntRange(1, len(steps)-1).Draw(rt, "sweepat")
	}
	return c
}

// c03GeoAns is the answer of the station's GeoIP database for the prober's source address.
type c03GeoAns struct {
	CC  string `json:"cc"` // "" = record without a country (what MaxMind has for special-purpose space), "unk" = no record
	ASN uint   `json:"asn"`
}

func (g c03GeoAns) class() string {
	switch g.CC {
	case "":
		return "geo:no-country"
	case "unk":
		return "geo:no-record"
	}
	return "geo:country"
}

func c03GeoText(g *c03GeoAns) string {
	if g == nil {
		return ""
	}
	return fmt.Sprintf(", GeoIP answer cc=%q asn=%d", g.CC, g.ASN)
}

type c03PeerGeo struct{ a c03GeoAns }

func (g c03PeerGeo) CC(net.IP) (string, error) { return g.a.CC, nil }
func (g c03PeerGeo) ASN(net.IP) (uint, error)  { return g.a.ASN, nil }

func c03GeoGen(rt *rapid.T, label string) *c03GeoAns {
	return &c03GeoAns{
		CC:  rapid.SampledFrom([]string{"US", "CN", "IR", "", "", "unk", "unk"}).Draw(rt, label+"_cc"),
		ASN: rapid.SampledFrom([]uint{0, 0, 64512, 4134, 65535, 4294967295}).Draw(rt, label+"_asn"),
	}
}

// c03UseGeo installs the case's GeoIP answer in the environment; the returned function restores it.
func c03UseGeo(e *aEnv, g *c03GeoAns) func() {
	if g == nil {
		return func() {}
	}
	old := e.rm.GeoIP
	e.rm.GeoIP = c03PeerGeo{a: *g}
	return func() { e.rm.GeoIP = old }
}

// Address blocks a TCP peer's source address can lie in, as the station sees it, by class. The
// class says nothing about how the station has to behave (it has to behave the same for all of
// them); it only makes sure every kind of source is among the generated cases.
type c03PeerBlock struct {
	class string
	cidr  string
}

var c03PeerBlocks4 = []c03PeerBlock{
	{"public", "203.0.113.0/24"}, {"public", "1.1.1.0/24"}, {"public", "93.184.216.0/24"}, {"public", "223.0.0.0/8"}, {"public", "151.101.0.0/16"},
	{"private-use", "10.0.0.0/8"}, {"private-use", "172.16.0.0/12"}, {"private-use", "192.168.0.0/16"},
	{"shared-cgnat", "100.64.0.0/10"},
	{"loopback", "127.0.0.0/8"},
	{"link-local", "169.254.0.0/16"},
	{"special-purpose", "198.18.0.0/15"}, {"special-purpose", "192.0.0.0/24"}, {"special-purpose", "192.0.2.0/24"}, {"special-purpose", "240.0.0.0/5"},
}

var c03PeerBlocks6 = []c03PeerBlock{
	{"public", "2001:db8::/32"}, {"public", "2a00::/12"}, {"public", "2600::/12"}, {"public", "2400::/12"},
	{"private-use", "fc00::/8"}, {"private-use", "fd00::/8"}, {"private-use", "fd12:3456:789a::/48"},
	{"loopback", "::1/128"},
	{"link-local", "fe80::/64"},
	{"special-purpose", "2002::/16"}, {"special-purpose", "2001::/32"}, {"special-purpose", "64:ff9b::/96"}, {"special-purpose", "100::/64"},
}

// c03PeerGen draws the prober's source address "ip:port" of the phantom's family: a block, then
// the first / last / a random address of it, or (class "block-neighbour") the address just below /
// just above the block; and a source port.
func c03PeerGen(rt *rapid.T, v6 bool, label string) (remote, class string) {
	blocks := c03PeerBlocks4
	if v6 {
		blocks = c03PeerBlocks6
	}
	b := rapid.SampledFrom(blocks).Draw(rt, label+"_block")
	_, nw, err := net.ParseCIDR(b.cidr)
	if err != nil {
		rt.Fatalf("harness problem: %v", err)
	}
	base := nw.IP
	n := len(base)
	first := append(net.IP(nil), base...)
	last := append(net.IP(nil), base...)
	for i := range last {
		last[i] |= ^nw.Mask[i]
	}
	step := func(ip net.IP, d int) net.IP { // ip+1 / ip-1 (wraps)
		out := append(net.IP(nil), ip...)
		for i := n - 1; i >= 0; i-- {
			if d > 0 {
				out[i]++
				if out[i] != 0 {
					break
				}
			} else {
				out[i]--
				if out[i] != 0xff {
					break
				}
			}
		}
		return out
	}
	var ip net.IP
	class = b.class
	switch rapid.SampledFrom([]string{"random", "random", "random", "first", "last", "below", "above"}).Draw(rt, label+"_where") {
	case "first":
		ip = first
	case "last":
		ip = last
	case "below":
		ip, class = step(first, -1), "block-neighbour"
	case "above":
		ip, class = step(last, +1), "block-neighbour"
	default:
		host := rapid.SliceOfN(rapid.Byte(), n, n).Draw(rt, label+"_host")
		ip = append(net.IP(nil), base...)
		for i := range ip {
			ip[i] |= host[i] & ^nw.Mask[i]
		}
	}
	if ip.IsUnspecified() || ip.IsMulticast() || ip.Equal(net.IPv4bcast) {
		// not a possible source of a TCP connection (only reachable as a neighbour of a block)
		ip, class = first, b.class
	}
	port := rapid.SampledFrom([]int{1, 22, 80, 443, 1023, 1024, 5555, 32768, 49152, 61000, 65535, 0}).Draw(rt, label+"_port")
	if port == 0 {
		port = rapid.IntRange(1, 65535).Draw(rt, label+"_anyport")
	}
	return net.JoinHostPort(ip.String(), fmt.Sprint(port)), class
}

func c03DropTwins(regs []aRegSpec, spec aRegSpec) []aRegSpec {
	var out []aRegSpec
	for _, r := range regs {
		if r.Secret == spec.Secret && r.TT == spec.TT && r.Phantom == 0 {
			continue
		}
		out = append(out, r)
	}
	return out
}

func c03Setup(e *aEnv, c c03Case) (*aEnv, error) {
	ne := e
	cj.VerifResetRegistry(ne.rm)
	for _, s := range c.Regs {
		reg, err := ne.aMakeReg(s)
		if err != nil {
			return nil, err
		}
		ne.rm.AddRegistration(reg)
	}
	for _, s := range c.Unval {
		reg, err := ne.aMakeReg(s)
		if err != nil {
			return nil, err
		}
		if err := ne.rm.TrackRegistration(reg); err != nil {
			return nil, err
		}
	}
	return ne, nil
}

// c03Oracle checks the recorded connection. limit5 is the lower bound for close/return.
func c03Oracle(conn *vconn.Conn, returned bool, panicked any, realDur time.Duration) (key, msg string, classes []string) {
	events, written, _, _ := conn.Snapshot()
	if panicked != nil {
		return "panic", fmt.Sprintf("handler panicked: %v", panicked), nil
	}
	if !returned {
		// on a scripted connection every wait is virtual (or at most the 10 s real-time sleep): a
		// handler that has not returned after 40 s is stuck (it neither reads nor ever closes)
		buf := make([]byte, 1<<18)
		buf = buf[:runtime.Stack(buf, true)]
		dig := ""
		for _, g := range strings.Split(string(buf), "\n\n") {
			if strings.Contains(g, "handleNewTCPConn") {
				lines := strings.Split(g, "\n")
				if len(lines) > 9 {
					lines = lines[:9]
				}
				dig = strings.Join(lines, "\n")
			}
		}
		return "handler-stuck", "handler did not return within the limit (12-40 s of real time) although the peer's (virtual) silence lasted past every deadline; it is blocked here:\n" + dig, nil
	}
	if len(written) != 0 {
		return "wrote-bytes", fmt.Sprintf("station wrote %d byte(s) to an unauthenticated peer: %x", len(written), written[:minInt(len(written), 32)]), nil
	}
	const lower = 4950 * time.Millisecond
	firstRead, firstDL := -1, -1
	lastRead := -1
	for i, ev := range events {
		switch ev.Kind {
		case "read":
			if firstRead < 0 {
				firstRead = i
			}
			lastRead = i
		case "setdeadline", "setreaddeadline":
			if firstDL < 0 {
				firstDL = i
			}
		case "close":
			if ev.VT < lower {
				return "early-close", fmt.Sprintf("connection closed after %v (< 5 s)", ev.VT), nil
			}
		case "write":
			return "wrote-bytes", "station called Write on an unauthenticated peer", nil
		}
	}
	if firstDL < 0 && firstRead < 0 && conn.VNow() < lower && realDur < lower {
		// the handler gave the connection up at once: no deadline, no read, returned
		return "early-return", fmt.Sprintf("handler returned (=> close) after %v virtual / %v real (< 5 s) without setting a deadline or reading anything", conn.VNow(), realDur), nil
	}
	if firstDL < 0 || (firstRead >= 0 && firstDL > firstRead) {
		return "deadline-not-first", "no classification deadline was set before the first read", nil
	}
	dl := events[firstDL]
	if dl.ZeroDL || dl.Deadline < 4900*time.Millisecond || dl.Deadline > 10*time.Second {
		return "deadline-range", fmt.Sprintf("classification deadline is now+%v, not within [5 s,10 s]", dl.Deadline), nil
	}
	vnow := conn.VNow()
	if vnow < lower && realDur < lower {
		return "early-return", fmt.Sprintf("handler returned (=> close) after %v virtual / %v real (< 5 s)", vnow, realDur), nil
	}
	if realDur < lower {
		// returned on the virtual clock: it must have been reading until a Read reported the deadline
		if lastRead < 0 || events[lastRead].Err != "timeout" {
			return "stopped-reading", "handler returned without reading until the deadline", nil
		}
	} else {
		classes = append(classes, "real-time-wait")
		// the handler waited in real time. Bytes the peer had already sent (scripted without a
		// pause, so available at once) must still have been read: the station keeps reading.
		if n := conn.AvailableUnread(); n > 0 {
			return "stopped-reading", fmt.Sprintf("handler stopped reading with %d byte(s) of the probe available and unread, and waited %v without reading", n, realDur), classes
		}
	}
	return "", "", classes
}

func minInt(a, b int) int {
	if a < b {
		return a
	}
	return b
}

// c03PeerClasses: class labels for the source of the probe.
func c03PeerClasses(c c03Case, onPhantom int) (out []string) {
	if c.PeerClass != "" {
		out = append(out, "peer:"+c.PeerClass)
		if onPhantom > 0 {
			out = append(out, "peer:"+c.PeerClass+":phantom-with-registrations")
		}
	}
	if c.Geo != nil {
		out = append(out, c.Geo.class())
	}
	return out
}

func c03Check(t vh.Fataler, rec *vh.Rec, e *aEnv, c c03Case) {
	ne, err := c03Setup(e, c)
	if err != nil {
		t.Fatalf("harness problem: setup: %v", err)
	}
	script := c.Script
	if c.SweepAt > 0 && c.SweepAt < len(script.Reads) {
		script.Reads = append([]vconn.Step(nil), script.Reads...)
		script.Reads[c.SweepAt].Hook = "sweep"
	}
	conn := vconn.New(script)
	if script.Remote != "" && conn.RemoteAddr().String() != script.Remote {
		t.Fatalf("harness problem: the scripted connection reports peer %s, the case says %s", conn.RemoteAddr(), script.Remote)
	}
	defer c03UseGeo(ne, c.Geo)()
	swept := false
	conn.OnHook = func(string) {
		cj.VerifShiftTimes(ne.rm, 7*time.Hour)
		ne.rm.RemoveOldRegistrations()
		swept = true
	}
	ph := aPhantom(0, c.V6)
	onPhantom := ne.rm.CountRegistrations(ph)
	ok, pan, dur := ne.aRunHandler(conn, ph, 40*time.Second)
	key, msg, classes := c03Oracle(conn, ok, pan, dur)
	classes = append(classes, "kind:"+c.Kind)
	classes = append(classes, c03PeerClasses(c, onPhantom)...)
	if onPhantom == 0 {
		classes = append(classes, "no-reg-drain")
	} else if c.Total >= 8192 {
		classes = append(classes, "ran-out-of-transports-drain")
	} else {
		classes = append(classes, "read-loop-timeout")
	}
	nontrivial := onPhantom > 0 && c.Total >= 32
	if swept && onPhantom > 0 {
		classes = append(classes, "registrations-swept-during-connection")
	}
	rec.Case(nontrivial, vh.Digest(c), c, classes...)
	if key == "harness" {
		t.Fatalf("harness problem: %s", msg)
	}
	if key != "" {
		rec.Violation(t, key, c, "%s (probe kind %s, %d bytes, %d regs on phantom, from %s [%s])", msg, c.Kind, c.Total, onPhantom, conn.RemoteAddr(), c.PeerClass+c03GeoText(c.Geo))
	}
}

func TestVerif_C03_probes(t *testing.T) {
	rec := vh.NewRec("C03", "probes", "rapid-generated probe streams (random / look-alike / static prefix + garbage / genuine flight with one bit flipped / genuine flight for another phantom, an unvalidated or an unknown registration / >=8192 random bytes) with drawn segmentation and virtual pauses against drawn registries, from a drawn source address (public, private-use, shared, loopback, link-local and special-purpose blocks of the phantom's family: first / last / random address of the block and the addresses just outside it; drawn source port) about which the GeoIP database gives a drawn answer (country, no country, no record; AS number), in a quarter of the multi-segment cases every registration expires and is swept between two segments; non-trivial = probe of >=32 bytes against a phantom that has registrations; distinct by whole case")
	defer rec.Flush()
	rec.Require("no-reg-drain", "ran-out-of-transports-drain", "read-loop-timeout", "kind:flip-genuine", "kind:wrong-phantom", "kind:unvalidated", "kind:static+garbage", "registrations-swept-during-connection")
	rec.Require("peer:public:phantom-with-registrations", "peer:private-use", "peer:private-use:phantom-with-registrations", "peer:shared-cgnat", "peer:loopback", "peer:link-local", "peer:special-purpose", "peer:block-neighbour", "geo:country", "geo:no-country", "geo:no-record")
	defer aSilenceStdout()()
	e := aNewEnv(t)
	if p := vh.ReplayFile(); p != "" {
		var c c03Case
		if _, _, err := vh.LoadReplay(p, &c); err != nil {
			t.Fatal(err)
		}
		c03Check(t, rec, e, c)
		return
	}
	rapid.Check(t, func(rt *rapid.T) {
		c := c03Gen(rt, e)
		c03Check(rt, rec, e, c)
	})
}

// obfs4 handshake with a valid mark and a broken MAC: passes the mark search and fails inside the
// obfs4 server handshake (which drains until its own deadline and closes); the handler then sleeps
// until the real classification deadline. Runs in real time, cases in parallel.
func TestVerif_C03_obfs4inner(t *testing.T) {
	rec := vh.NewRec("C03", "obfs4inner", "genuine obfs4 client handshakes (captured from the real client) with one bit flipped in the MAC or the mark/padding, fed in one or two segments, followed by 0 B - 16 KiB of further bytes in the same burst or in later segments; real-time tier (the handler sleeps until the real deadline); non-trivial = the flip is in the MAC (mark found, inner handshake fails); distinct by case")
	defer rec.Flush()
	defer aSilenceStdout()()
	if vh.ReplayFile() != "" {
		t.Skip("replay not supported for the real-time tier")
	}
	n := vh.Pick(24, 192)
	_, shards := vh.Shard()
	n = (n + shards - 1) / shards
	var wg sync.WaitGroup
	type res struct {
		c        c03Case
		key, msg string
		classes  []string
	}
	out := make([]res, n)
	seed := vh.Seed()
	sidx, _ := vh.Shard()
	for i := 0; i < n; i++ {
		e := aNewEnv(t)
		spec := aRegSpec{Secret: i % 6, TT: 2, Phantom: 0}
		reg, err := e.aMakeReg(spec)
		if err != nil {
			t.Fatalf("harness problem: %v", err)
		}
		e.rm.AddRegistration(reg)
		hs, err := e.aObfs4Handshake(aSecret(spec.Secret))
		if err != nil {
			t.Fatalf("harness problem: obfs4 handshake capture: %v", err)
		}
		// deterministic choice from (seed, shard, i)
		h := core.ConjureHMAC([]byte(fmt.Sprintf("%d-%d-%d", seed, sidx, i)), "c03obfs4")
		var pos int
		where := "mac"
		if i%3 == 2 {
			where = "mark-or-pad"
			pos = 32*8 + int(h[0])%((len(hs)-32-16)*8)
		} else {
			pos = (len(hs)-16)*8 + int(h[0])%(16*8)
		}
		hs[pos/8] ^= 1 << uint(pos%8)
		// what the peer sends after the garbled handshake (a replayed session goes on, a prober pads):
		// in the same burst, or - the case in which the station has already handed the connection
		// to the obfs4 server handshake - as segments of their own a little later
		extra := []int{0, 0, 1, 700, 4000, 8192, 16384 - len(hs)}[int(h[3])%7]
		hsLen := len(hs)
		var trailing []byte
		if extra > 0 {
			trailing = aPayload(i, extra, "c03-obfs4-extra")
		}
		later := extra > 0 && h[4]%3 != 0
		if !later {
			hs = append(hs, trailing...)
		}
		steps := []vconn.Step{{Data: vh.Hex(hs)}}
		if h[1]%2 == 0 {
			k := 1 + int(h[2])%(hsLen-1)
			steps = []vconn.Step{{Data: vh.Hex(hs[:k])}, {Data: vh.Hex(hs[k:]), PauseMs: 10}}
		}
		if later {
			for lo := 0; lo < len(trailing); lo += 1448 {
				hi := lo + 1448
				if hi > len(trailing) {
					hi = len(trailing)
				}
				st := vconn.Step{Data: vh.Hex(trailing[lo:hi])}
				if lo == 0 {
					st.PauseMs = int64(5 + int(h[5])%400)
				}
				steps = append(steps, st)
			}
		}
		c := c03Case{Regs: []aRegSpec{spec}, Kind: "obfs4-flip-" + where, Total: hsLen + extra, Script: vconn.Script{Reads: steps, End: "hold", Remote: "203.0.113.77:5555"}}
		if extra > 0 && later {
			c.Kind += "+trailing-later"
		} else if extra > 0 {
			c.Kind += "+trailing"
		}
		out[i].c = c
		wg.Add(1)
		go func(i int, e *aEnv, c c03Case) {
			defer wg.Done()
			conn := vconn.New(c.Script)
			ok, pan, dur := e.aRunHandler(conn, aPhantom(0, false), 60*time.Second)
			out[i].key, out[i].msg, out[i].classes = c03Oracle(conn, ok, pan, dur)
		}(i, e, c)
	}
	wg.Wait()
	for _, r := range out {
		rec.Case(strings.HasPrefix(r.c.Kind, "obfs4-flip-mac"), vh.Digest(r.c), r.c, append(r.classes, "kind:"+r.c.Kind)...)
		if r.key == "harness" {
			t.Fatalf("harness problem: %s", r.msg)
		}
		if r.key != "" {
			rec.Violation(t, r.key, r.c, "%s (%s)", r.msg, r.c.Kind)
		}
	}
}


// Real-time tier: the same probes over net.Pipe with the wall clock (no virtual time), many at a
// time because they only wait. Cross-checks the virtual-clock model: the handler must not return
// (=> close) before 5 s of real time, must return by ~10 s, and the peer must never receive a byte.
type c03PipeConn struct {
	net.Conn
	remote net.Addr
}

func (c c03PipeConn) RemoteAddr() net.Addr { return c.remote }

// c03TCPPair returns the two ends of a loopback TCP connection (IPv6 loopback for v6 cases when the
// host has one).
func c03TCPPair(v6 bool) (cli, srv net.Conn, err error) {
	addr := "127.0.0.1:0"
	if v6 {
		addr = "[::1]:0"
	}
	ln, err := net.Listen("tcp", addr)
	if err != nil && v6 {
		ln, err = net.Listen("tcp", "127.0.0.1:0")
	}
	if err != nil {
		return nil, nil, err
	}
	defer ln.Close()
	type acc struct {
		c   net.Conn
		err error
	}
	ch := make(chan acc, 1)
	go func() { c, err := ln.Accept(); ch <- acc{c, err} }()
	cli, err = net.DialTimeout("tcp", ln.Addr().String(), 10*time.Second)
	if err != nil {
		return nil, nil, err
	}
	a := <-ch
	if a.err != nil {
		cli.Close()
		return nil, nil, a.err
	}
	return cli, a.c, nil
}

func TestVerif_C03_realtime(t *testing.T) {
	rec := vh.NewRec("C03", "realtime", "probes from the 'probes' generator (without pauses) written segment by segment into a net.Pipe (whose station end reports the case's drawn source address) or (every second case) a real loopback TCP connection whose other end is handed to handleNewTCPConn, all running concurrently in real time; oracle: handler returns after >= 5 s and <= 12 s, the prober receives nothing - no byte, no FIN, no RST - before 5 s; non-trivial as in 'probes'; distinct by case")
	defer rec.Flush()
	rec.Require("real-tcp-socket", "real-tcp-socket:phantom-without-registrations", "late-segment")
	defer aSilenceStdout()()
	if vh.ReplayFile() != "" {
		t.Skip("real-time tier is not replayable")
	}
	n := vh.Pick(24, 240)
	_, shards := vh.Shard()
	n = (n + shards - 1) / shards
	type item struct {
		c     c03Case
		e     *aEnv
		key   string
		msg   string
		pause time.Duration
		tcp   bool
	}
	var items []*item
	ge := aNewEnv(t)
	left := n
	rapid.Check(t, func(rt *rapid.T) {
		if left <= 0 {
			return
		}
		c := c03Gen(rt, ge)
		if c.Total > 20000 {
			return
		}
		left--
		it := &item{c: c}
		if len(items)%3 == 0 && len(c.Script.Reads) > 0 {
			it.pause = []time.Duration{1500 * time.Millisecond, 3 * time.Second, 4700 * time.Millisecond}[(len(items)/3)%3]
		}
		it.tcp = len(items)%2 == 1
		if len(items)%4 == 1 {
			// every fourth case: a real socket on a phantom without any registration (the handler's
			// read-and-discard path)
			it.c.Regs, it.c.Unval = nil, nil
		}
		items = append(items, it)
	})
	var wg sync.WaitGroup
	for _, it := range items {
		e := aNewEnv(t)
		if _, err := c03Setup(e, it.c); err != nil {
			t.Fatalf("harness problem: %v", err)
		}
		c03UseGeo(e, it.c.Geo) // the environment is this case's own
		it.e = e
		wg.Add(1)
		go func(it *item) {
			defer wg.Done()
			var cli, srv net.Conn
			var handed net.Conn
			if it.tcp {
				// a real socket pair: the handler gets a *net.TCPConn, as in production
				var err error
				cli, srv, err = c03TCPPair(it.c.V6)
				if err != nil {
					it.key, it.msg = "harness", fmt.Sprintf("loopback TCP pair: %v", err)
					return
				}
				handed = srv
			} else {
				cli, srv = net.Pipe()
				remote, err := net.ResolveTCPAddr("tcp", it.c.Script.Remote)
				if err != nil || remote.String() != it.c.Script.Remote {
					it.key, it.msg = "harness", fmt.Sprintf("peer address %q of the case: %v / %v", it.c.Script.Remote, remote, err)
					return
				}
				handed = c03PipeConn{Conn: srv, remote: remote}
			}
			defer cli.Close()
			start := time.Now()
			done := make(chan any, 1)
			go func() {
				defer func() { done <- recover() }()
				it.e.cm.handleNewTCPConn(it.e.rm, handed, aPhantom(0, it.c.V6))
				srv.Close() // what handleNewConn does when the handler returns
			}()
			// prober: write the segments (every third case: the last segment arrives late, after a
			// real pause of 1.5 / 3 / 4.7 s), then listen
			go func() {
				for si, st := range it.c.Script.Reads {
					if it.pause > 0 && si == len(it.c.Script.Reads)-1 {
						time.Sleep(it.pause)
					}
					_ = cli.SetWriteDeadline(time.Now().Add(11 * time.Second))
					if _, err := cli.Write(st.Data); err != nil {
						return
					}
				}
			}()
			got := make(chan int, 1)
			var endAt time.Duration
			var endErr error
			go func() {
				buf := make([]byte, 64)
				total := 0
				for {
					k, err := cli.Read(buf)
					total += k
					if err != nil {
						endAt, endErr = time.Since(start), err
						got <- total
						return
					}
				}
			}()
			select {
			case p := <-done:
				el := time.Since(start)
				if p != nil {
					it.key, it.msg = "panic", fmt.Sprintf("handler panicked: %v", p)
				} else if el < 4950*time.Millisecond {
					it.key, it.msg = "early-return", fmt.Sprintf("handler returned (=> close) after %v of real time (< 5 s)", el)
				}
			case <-time.After(14 * time.Second):
				it.key, it.msg = "harness", "handler still running after 14 s"
				return
			}
			select {
			case k := <-got:
				if k > 0 && it.key == "" {
					it.key, it.msg = "wrote-bytes", fmt.Sprintf("the prober received %d byte(s)", k)
				}
				if it.key == "" && endAt < 4950*time.Millisecond {
					it.key, it.msg = "early-close", fmt.Sprintf("the prober's read ended after %v of real time (< 5 s) with %v: the station closed (or half-closed) the connection before its deadline", endAt, endErr)
				}
			case <-time.After(3 * time.Second):
			}
		}(it)
	}
	wg.Wait()
	for _, it := range items {
		on := it.e.rm.CountRegistrations(aPhantom(0, it.c.V6))
		cl := []string{"kind:" + it.c.Kind}
		if it.pause > 0 {
			cl = append(cl, "late-segment")
		}
		if it.tcp {
			cl = append(cl, "real-tcp-socket")
			if on == 0 {
				cl = append(cl, "real-tcp-socket:phantom-without-registrations")
			}
		} else {
			// the pipe's station end reports the case's drawn source address (a real socket pair is
			// loopback whatever the case says)
			cl = append(cl, c03PeerClasses(it.c, on)...)
		}
		rec.Case(on > 0 && it.c.Total >= 32, vh.Digest(it.c), it.c, cl...)
		if it.key == "harness" {
			t.Fatalf("harness problem: %s", it.msg)
		}
		if it.key != "" {
			rec.Violation(t, it.key, it.c, "%s (real-time tier, probe kind %s, %d bytes, %s)", it.msg, it.c.Kind, it.c.Total, map[bool]string{true: "loopback TCP socket", false: "pipe reporting peer " + it.c.Script.Remote}[it.tcp])
		}
	}
}


// Sequences of connections on ONE connection manager: earlier connections (peers that close or reset
// at various points, silent peers) and statistics epoch resets - also in the middle of a connection -
// must not change how a later unauthenticated connection is treated.
type c03SeqConn struct {
	Kind   string `json:"kind"` // probe | eof-at-once | data-eof | data-reset | silent
	V6     bool   `json:"v6"`
	Reset  string `json:"reset"` // "" | before | during | after : statistics PrintAndReset relative to this connection
	Len    int    `json:"len"`
	ASN    int    `json:"asn"`
	NoRegs bool   `json:"noregs"` // probe a phantom without registrations
	Peer   string `json:"peer,omitempty"`       // source address "ip:port" of this connection (c03PeerGen); "" = the fixed public one
	PeerClass string `json:"peer_class,omitempty"`
	Reload string `json:"reload,omitempty"` // configuration reload (the SIGHUP path, OnReload) before this connection: "" | plain | blocklist-this (the phantom this connection goes to becomes a blocklisted phantom) | blocklist-other | bad-geoip (the new GeoIP files cannot be opened: that part of the reload is abandoned)
}

type c03SeqCase struct {
	Conns []c03SeqConn `json:"conns"`
}

// c03Geo stands in for an opened GeoIP database: like the real one it holds resources, and once it
// has been closed every lookup fails.
type c03Geo struct {
	asn    *uint
	closed *bool
}

func (g c03Geo) CC(net.IP) (string, error) {
	if g.closed != nil && *g.closed {
		return "", errors.New("cannot call Lookup on a closed database")
	}
	return "US", nil
}
func (g c03Geo) ASN(net.IP) (uint, error) {
	if g.closed != nil && *g.closed {
		return 0, errors.New("cannot call Lookup on a closed database")
	}
	return *g.asn, nil
}
func (g c03Geo) Close() error {
	if g.closed != nil {
		*g.closed = true
	}
	return nil
}

func c03SeqRun(e *aEnv, c c03SeqCase) (key, msg string, classes []string) {
	cj.VerifResetRegistry(e.rm)
	e.cm = newConnManager(nil)
	asn := uint(64512)
	e.rm.GeoIP = c03Geo{asn: &asn, closed: new(bool)}
	defer e.rm.OnReload(c03ReloadConf(nil, "")) // leave the shared environment without a phantom blocklist
	for _, v6 := range []bool{false, true} {
		for tt := 0; tt < 3; tt++ {
			reg, err := e.aMakeReg(aRegSpec{Secret: tt, TT: tt, PrefixID: 1, Phantom: 0, V6: v6})
			if err != nil {
				return "harness", err.Error(), nil
			}
			e.rm.AddRegistration(reg)
		}
	}
	for i, sc := range c.Conns {
		asn = uint(64512 + sc.ASN)
		var s vconn.Script
		s.Remote = "203.0.113.77:5555"
		if sc.V6 {
			s.Remote = "[2001:db8::77]:5555"
		}
		if sc.Peer != "" {
			s.Remote = sc.Peer
		}
		data := aPayload(i*7+sc.Len, sc.Len, "c03seq")
		first := vconn.Step{Data: vh.Hex(data)}
		if sc.Reset == "during" {
			first.Hook = "reset"
		}
		switch sc.Kind {
		case "probe", "silent":
			s.End = "hold"
			if sc.Kind == "silent" {
				first.Data = nil
			}
			s.Reads = []vconn.Step{first}
		case "eof-at-once":
			first.Data = nil
			first.Err = "eof"
			s.Reads = []vconn.Step{first}
			s.End = "eof"
		case "data-eof":
			s.Reads = []vconn.Step{first, {Err: "eof"}}
			s.End = "eof"
		case "data-reset":
			s.Reads = []vconn.Step{first, {Err: "reset"}}
			s.End = "reset"
		}
		if sc.Reset == "before" {
			e.cm.PrintAndReset(e.rm.Logger)
		}
		conn := vconn.New(s)
		if conn.RemoteAddr().String() != s.Remote {
			return "harness", fmt.Sprintf("the scripted connection reports peer %s, the case says %s", conn.RemoteAddr(), s.Remote), classes
		}
		if sc.PeerClass != "" && (sc.Kind == "probe" || sc.Kind == "silent") {
			classes = append(classes, "peer:"+sc.PeerClass)
		}
		conn.OnHook = func(string) { e.cm.PrintAndReset(e.rm.Logger) }
		ph := aPhantom(0, sc.V6)
		if sc.NoRegs {
			ph = aPhantom(7, sc.V6)
		}
		if sc.Reload != "" {
			// what main.go does on SIGHUP after the new configuration parsed
			var list []string
			switch sc.Reload {
			case "blocklist-this":
				if sc.V6 {
					list = []string{"2001:db8:9::/48", ph.String() + "/128"}
				} else {
					list = []string{"10.99.0.0/16", ph.String() + "/32"}
				}
			case "blocklist-other":
				list = []string{"10.99.0.0/16", "2001:db8:9::/48"}
			}
			badGeo := ""
			if sc.Reload == "bad-geoip" {
				badGeo = filepath.Join(e.tb.TempDir(), "unusable.mmdb")
				if err := os.WriteFile(badGeo, []byte("this is not a MaxMind database"), 0o644); err != nil {
					return "harness", err.Error(), classes
				}
			}
			old := e.rm.GeoIP
			e.rm.OnReload(c03ReloadConf(list, badGeo))
			if sc.Reload != "bad-geoip" {
				// the reload opened the (unchanged) databases anew
				e.rm.GeoIP = c03Geo{asn: &asn, closed: new(bool)}
			} else if e.rm.GeoIP != old {
				return "harness", "a reload whose GeoIP files cannot be opened replaced the GeoIP database", classes
			}
			classes = append(classes, "reload:"+sc.Reload)
		}
		ok, pan, dur := e.aRunHandler(conn, ph, 12*time.Second) // no real-time wait exists on these paths
		classes = append(classes, "conn:"+sc.Kind)
		if sc.Reset != "" {
			classes = append(classes, "stats-reset:"+sc.Reset)
		}
		if sc.Kind == "probe" || sc.Kind == "silent" {
			k, m, _ := c03Oracle(conn, ok, pan, dur)
			if k != "" {
				return k, fmt.Sprintf("connection %d of the sequence (%s from %s): %s", i, sc.Kind, s.Remote, m), classes
			}
		} else {
			if pan != nil {
				return "panic", fmt.Sprintf("connection %d (%s): handler panicked: %v", i, sc.Kind, pan), classes
			}
			if !ok {
				k, m, _ := c03Oracle(conn, ok, pan, dur)
				return k, fmt.Sprintf("connection %d of the sequence (%s): %s", i, sc.Kind, m), classes
			}
			if _, w, _, _ := conn.Snapshot(); len(w) != 0 {
				return "wrote-bytes", fmt.Sprintf("connection %d (%s): station wrote %d bytes to an unauthenticated peer", i, sc.Kind, len(w)), classes
			}
		}
		if sc.Reset == "after" {
			e.cm.PrintAndReset(e.rm.Logger)
		}
	}
	return "", "", classes
}

// c03ReloadConf builds the configuration a reload hands to OnReload (blocklists parsed, as main.go
// does before calling it).
func c03ReloadConf(phantomBlocklist []string, geoipFile string) *cj.RegConfig {
	conf := &cj.RegConfig{EnableIPv4: true, EnableIPv6: true, PhantomBlocklist: phantomBlocklist}
	if geoipFile != "" {
		conf.DBConfig = &geoip.DBConfig{CCDBPath: geoipFile, ASNDBPath: geoipFile}
	}
	if err := conf.ParseBlocklists(); err != nil {
		panic(err)
	}
	return conf
}

func TestVerif_C03_sequence(t *testing.T) {
	rec := vh.NewRec("C03", "sequence", "rapid-generated sequences of 2-6 connections on one connection manager: peers that close at once / after data / reset / stay silent, probes, IPv4 and IPv6, two source ASNs, source addresses of every class of the 'probes' generator (three quarters of the connections; else the fixed public one), phantoms with and without registrations, statistics epoch resets before / during / after a connection, configuration reloads through OnReload in between (plain; the probed phantom becomes a blocklisted phantom; GeoIP files that cannot be opened, against a GeoIP stand-in that fails every lookup once closed); every connection is judged (probes and silent peers by the C03 oracle, closing peers by 'returns, writes nothing'); non-trivial = a sequence with a statistics reset and a later probe; distinct by case")
	defer rec.Flush()
	rec.Require("stats-reset:during", "conn:eof-at-once", "conn:probe", "reload:blocklist-this", "reload:bad-geoip", "peer:public", "peer:private-use", "peer:loopback")
	defer aSilenceStdout()()
	e := aNewEnv(t)
	run := func(tt vh.Fataler, c c03SeqCase) {
		key, msg, classes := c03SeqRun(e, c)
		nontriv := false
		seenReset := false
		for _, sc := range c.Conns {
			if sc.Reset != "" {
				seenReset = true
			} else if seenReset && (sc.Kind == "probe" || sc.Kind == "silent") {
				nontriv = true
			}
		}
		rec.Case(nontriv, vh.Digest(c), c, classes...)
		if key == "harness" {
			tt.Fatalf("harness problem: %s", msg)
		}
		if key != "" {
			rec.Violation(tt, key, c, "%s", msg)
		}
	}
	if p := vh.ReplayFile(); p != "" {
		var c c03SeqCase
		if _, _, err := vh.LoadReplay(p, &c); err != nil {
			t.Fatal(err)
		}
		run(t, c)
		return
	}
	rapid.Check(t, func(rt *rapid.T) {
		n := rapid.IntRange(2, 6).Draw(rt, "n")
		var c c03SeqCase
		for i := 0; i < n; i++ {
			v6 := rapid.IntRange(0, 2).Draw(rt, "v6") == 0
			peer, peerClass := "", ""
			if rapid.IntRange(0, 3).Draw(rt, "drawpeer") > 0 {
				peer, peerClass = c03PeerGen(rt, v6, "peer")
			}
			c.Conns = append(c.Conns, c03SeqConn{
				Kind:   rapid.SampledFrom([]string{"probe", "eof-at-once", "eof-at-once", "data-eof", "data-reset", "silent"}).Draw(rt, "kind"),
				V6:     v6,
				Peer:   peer, PeerClass: peerClass,
				Reset:  rapid.SampledFrom([]string{"", "", "before", "during", "during", "after"}).Draw(rt, "reset"),
				Len:    rapid.SampledFrom([]int{1, 31, 32, 64, 100, 5000}).Draw(rt, "len"),
				ASN:    rapid.IntRange(0, 1).Draw(rt, "asn"),
				NoRegs: rapid.IntRange(0, 3).Draw(rt, "noregs") == 0,
				Reload: rapid.SampledFrom([]string{"", "", "", "", "plain", "blocklist-this", "blocklist-this", "blocklist-other", "bad-geoip", "bad-geoip"}).Draw(rt, "reload"),
			})
		}
		run(rt, c)
	})
}
