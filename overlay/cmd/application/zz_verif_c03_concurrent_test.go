package main

// C03 (concurrent connections) — the single-connection sub-checks cannot see state that leaks from
// one connection into another (shared buffers, shared per-manager state) or a handler that hangs or
// crashes when the registry changes under it. Here, after a warm-up tunnel, several probers and
// several registered clients are handled at the same time on the same phantom while registrations
// for that phantom keep arriving, being used and expiring. Every prober must be treated exactly as
// a lone prober is (no byte, no early close, read until the deadline), every client's data must
// reach the covert intact, nothing may hang, and (the unit is built with -race) no two connections
// may touch the same memory.

import (
	"bytes"
	"fmt"
	"runtime"
	"strings"
	"sync"
	"testing"
	"time"

	cj "github.com/refraction-networking/conjure/pkg/station/lib"
	"pgregory.net/rapid"
	"verif/harness/vconn"
	"verif/harness/vh"
)

type c03cProbe struct {
	Kind string `json:"kind"` // random | flip-genuine | other-client-flight | long
	Len  int    `json:"len"`
	Key  int    `json:"key"`
	Segs int    `json:"segs"`
	Bit  int    `json:"bit"`
}

type c03cCase struct {
	V6      bool        `json:"v6"`
	Probes  []c03cProbe `json:"probes"`
	Clients []int       `json:"clients"` // transport index of each concurrent registered client (own secret each)
	Churn   bool        `json:"churn"`   // registrations for the phantom keep arriving / being used / expiring meanwhile
	Warm    int         `json:"warm"`    // transport of the tunnel that completes before the wave
}

func c03cStack(needle string) string {
	buf := make([]byte, 1<<20)
	buf = buf[:runtime.Stack(buf, true)]
	var out []string
	for _, g := range strings.Split(string(buf), "\n\n") {
		if strings.Contains(g, needle) {
			lines := strings.Split(g, "\n")
			if len(lines) > 11 {
				lines = lines[:11]
			}
			out = append(out, strings.Join(lines, "\n"))
		}
		if len(out) >= 3 {
			break
		}
	}
	return strings.Join(out, "\n--\n")
}


// c03cProbeData builds the bytes one prober sends.
func c03cProbeData(t vh.Fataler, e *aEnv, p c03cProbe) []byte {
	var data []byte
	switch p.Kind {
	case "flip-genuine":
		// a standing registration's flight with one tag bit flipped
		w, err := e.aFlight(aSecret(20+p.Key%9), aTT[(p.Key%9)%2], 0, 0)
		if err != nil {
			t.Fatalf("harness problem: flight: %v", err)
		}
		data = aJoin(w)
		pos := p.Bit % (32 * 8)
		data[len(data)-32+pos/8] ^= 1 << uint(pos%8)
		data = append(data, aPayload(p.Key, p.Len, "c03c-extra")...)
	case "other-client-flight":
		// the tag of a client that is NOT registered on this phantom, followed by garbage
		w, err := e.aFlight(aSecret(90+p.Key%5), aTT[p.Key%2], 0, 0)
		if err != nil {
			t.Fatalf("harness problem: flight: %v", err)
		}
		data = append(aJoin(w), aPayload(p.Key, p.Len, "c03c-extra")...)
	case "long":
		data = aPayload(p.Key, 8192+p.Len, "c03c-long")
	default:
		data = aPayload(p.Key, 32+p.Len, "c03c-rnd")
	}
	return data
}

// c03cBlocked is set once the registry lock was found dead: nothing else can run in this process.
var c03cBlocked string

func c03cRun(t vh.Fataler, rec *vh.Rec, e *aEnv, c c03cCase) {
	if c03cBlocked != "" {
		rec.Violation(t, "handler-stuck", c, "%s", c03cBlocked)
		return
	}
	cj.VerifResetRegistry(e.rm)
	// standing registrations on the probed phantom
	for i := 0; i < 9; i++ {
		reg, err := e.aMakeReg(aRegSpec{Secret: 20 + i, TT: i % 3, Phantom: 0, V6: c.V6, Covert: e.cov.Addr()})
		if err != nil {
			t.Fatalf("harness problem: %v", err)
		}
		cj.VerifIngest(e.rm, reg)
	}
	// the registered clients (secret 60+i) and the warm-up client (secret 59)
	type client struct {
		spec    aRegSpec
		data    []byte
		payload []byte
	}
	mk := func(secret, tt int, label string) client {
		spec := aRegSpec{Secret: secret, TT: tt, Phantom: 0, V6: c.V6, Covert: e.cov.Addr()}
		reg, err := e.aMakeReg(spec)
		if err != nil {
			t.Fatalf("harness problem: %v", err)
		}
		cj.VerifIngest(e.rm, reg)
		w, err := e.aFlight(aSecret(secret), aTT[tt], 0, 0)
		if err != nil {
			t.Fatalf("harness problem: flight: %v", err)
		}
		pl := aPayload(secret, 700+secret, label)
		return client{spec: spec, data: append(aJoin(w), pl...), payload: pl}
	}
	phantom := aPhantom(0, c.V6)
	remote := "203.0.113.77:5555"
	if c.V6 {
		remote = "[2001:db8::77]:5555"
	}
	e.cov.Arm(1<<30, nil)
	// 1. a tunnel that completes before the wave
	warm := mk(59, c.Warm, "c03c-warm")
	{
		conn := vconn.New(vconn.Script{Reads: []vconn.Step{{Data: vh.Hex(warm.data)}}, End: "eof", Remote: remote})
		ok, pan, _ := e.aRunHandler(conn, phantom, 60*time.Second)
		if pan != nil {
			rec.Violation(t, "panic", c, "handler panicked on the warm-up client: %v", pan)
			return
		}
		if !ok {
			rec.Violation(t, "handler-stuck", c, "the warm-up client's handler did not return within 60 s:\n%s", c03cStack("handleNewTCPConn"))
			return
		}
	}
	var clients []client
	for i, tt := range c.Clients {
		clients = append(clients, mk(60+i, tt, fmt.Sprintf("c03c-client%d", i)))
	}
	// 2. the wave
	stop := make(chan struct{})
	var churnWG sync.WaitGroup
	if c.Churn {
		churnWG.Add(1)
		go func() {
			defer churnWG.Done()
			for i := 0; ; i++ {
				select {
				case <-stop:
					return
				default:
				}
				spec := aRegSpec{Secret: 200 + i%40, TT: i % 3, Phantom: 0, V6: c.V6, Covert: e.cov.Addr()}
				reg, err := e.aMakeReg(spec)
				if err != nil {
					continue
				}
				cj.VerifIngest(e.rm, reg) // new or duplicate
				if i%3 == 0 {
					e.rm.MarkActive(reg)
				}
				if i%5 == 4 {
					cj.VerifShiftTimesOf(e.rm, reg, 7*time.Hour)
					e.rm.RemoveOldRegistrations()
				}
				if i%16 == 0 {
					runtime.Gosched()
				}
			}
		}()
	}
	type probeRun struct {
		p    c03cProbe
		conn *vconn.Conn
		ok   bool
		pan  any
		dur  time.Duration
		n    int
	}
	probes := make([]*probeRun, len(c.Probes))
	for i, p := range c.Probes {
		data := c03cProbeData(t, e, p)
		var steps []vconn.Step
		segs := p.Segs
		if segs < 1 {
			segs = 1
		}
		for s := 0; s < segs; s++ {
			lo, hi := len(data)*s/segs, len(data)*(s+1)/segs
			if hi > lo {
				steps = append(steps, vconn.Step{Data: vh.Hex(data[lo:hi])})
			}
		}
		probes[i] = &probeRun{p: p, n: len(data), conn: vconn.New(vconn.Script{Reads: steps, End: "hold", Remote: remote})}
	}
	var wg sync.WaitGroup
	var start sync.WaitGroup
	start.Add(1)
	for _, pr := range probes {
		wg.Add(1)
		go func(pr *probeRun) {
			defer wg.Done()
			start.Wait()
			pr.ok, pr.pan, pr.dur = e.aRunHandler(pr.conn, phantom, 90*time.Second)
		}(pr)
	}
	cres := make([]struct {
		ok  bool
		pan any
	}, len(clients))
	for i, cl := range clients {
		wg.Add(1)
		go func(i int, cl client) {
			defer wg.Done()
			start.Wait()
			cut := 1 + (len(cl.data)-1)*(i+1)/(len(clients)+2)
			conn := vconn.New(vconn.Script{Reads: []vconn.Step{{Data: vh.Hex(cl.data[:cut])}, {Data: vh.Hex(cl.data[cut:])}}, End: "eof", Remote: remote})
			cres[i].ok, cres[i].pan, _ = e.aRunHandler(conn, phantom, 90*time.Second)
		}(i, cl)
	}
	start.Done()
	wg.Wait()
	close(stop)
	{
		done := make(chan struct{})
		go func() { churnWG.Wait(); close(done) }()
		select {
		case <-done:
		case <-time.After(60 * time.Second):
			rec.Case(true, vh.Digest(c), c, "registry-churn")
			c03cBlocked = fmt.Sprintf("the registry is blocked: the goroutine that registers / uses / expires registrations did not get the registry lock within 60 s after the wave, and handlers are blocked with it:\n%s\n--\n%s", c03cStack("handleNewTCPConn"), c03cStack("RegisteredDecoys"))
			rec.Violation(t, "handler-stuck", c, "%s", c03cBlocked)
			return
		}
	}
	classes := []string{fmt.Sprintf("probers:%d", len(probes)), fmt.Sprintf("clients:%d", len(clients))}
	if c.Churn {
		classes = append(classes, "registry-churn")
	}
	rec.Case(len(probes) > 0 && len(clients) > 0, vh.Digest(c), c, classes...)
	// 3. verdicts
	for i, pr := range probes {
		if !pr.ok {
			rec.Violation(t, "handler-stuck", c, "prober %d (%s, %d bytes): its handler did not return within 90 s of real time although every wait on the scripted connection is virtual; blocked goroutines:\n%s", i, pr.p.Kind, pr.n, c03cStack("handleNewTCPConn"))
			return
		}
		key, msg, _ := c03Oracle(pr.conn, pr.ok, pr.pan, pr.dur)
		if key != "" {
			rec.Violation(t, key, c, "prober %d (%s, %d bytes) handled concurrently with %d other probers and %d registered clients: %s", i, pr.p.Kind, pr.n, len(probes)-1, len(clients), msg)
			return
		}
	}
	for i := range clients {
		if cres[i].pan != nil {
			rec.Violation(t, "panic", c, "handler panicked on registered client %d: %v", i, cres[i].pan)
			return
		}
		if !cres[i].ok {
			rec.Violation(t, "handler-stuck", c, "registered client %d: its handler did not return within 90 s:\n%s", i, c03cStack("handleNewTCPConn"))
			return
		}
	}
	if !e.cov.Sync(30 * time.Second) {
		t.Fatalf("harness problem: covert listener did not accept the marker connection")
	}
	sess := e.cov.Sessions()
	for _, s := range sess {
		select {
		case <-s.Done:
		case <-time.After(20 * time.Second):
			t.Fatalf("harness problem: covert session still open")
		}
	}
	want := map[string]string{string(warm.payload): "warm-up client"}
	for i, cl := range clients {
		want[string(cl.payload)] = fmt.Sprintf("client %d", i)
	}
	seen := map[string]int{}
	for _, s := range sess {
		got := s.Bytes()
		who, ok := want[string(got)]
		if !ok {
			// whose bytes are these?
			desc := "bytes no registered client sent"
			for pl, w := range want {
				if len(got) > 0 && bytes.HasPrefix([]byte(pl), got) {
					desc = "a truncated copy of what " + w + " sent"
				}
			}
			rec.Violation(t, "covert-got-foreign-bytes", c, "a tunnel to the covert carried %d bytes that are %s (first bytes %x)", len(got), desc, got[:minInt(len(got), 24)])
			return
		}
		seen[who]++
	}
	for _, who := range want {
		if seen[who] != 1 {
			rec.Violation(t, "client-not-served", c, "%s: %d tunnels carried its data (expected exactly 1) while %d probers were handled concurrently", who, seen[who], len(probes))
			return
		}
	}
}

func TestVerif_C03_concurrent(t *testing.T) {
	rec := vh.NewRec("C03", "concurrent", "rapid-generated waves: after one complete tunnel, 2-8 probers (random / one-bit-flipped flight of a registered client / flight of a client registered elsewhere / >8 KiB) and 1-3 registered clients (min, prefix, obfs4) are handled concurrently by the real handler on one phantom, optionally while registrations for that phantom keep arriving, being used and expiring; built with the race detector; oracle: every prober passes the single-connection oracle (no byte written, not closed before 5 s, deadline set first, read until the deadline), every client's bytes reach the covert exactly once and nothing else does, every handler returns, no data race; non-trivial = a wave with at least one prober and one client; distinct by case")
	defer rec.Flush()
	rec.Require("registry-churn")
	defer aSilenceStdout()()
	e := aNewEnv(t)
	e.cov = aNewCovert(t)
	t.Cleanup(e.cov.Close)
	if p := vh.ReplayFile(); p != "" {
		var c c03cCase
		if _, _, err := vh.LoadReplay(p, &c); err != nil {
			t.Fatal(err)
		}
		c03cRun(t, rec, e, c)
		return
	}
	rapid.Check(t, func(rt *rapid.T) {
		c := c03cCase{V6: rapid.IntRange(0, 3).Draw(rt, "v6") == 0, Churn: rapid.IntRange(0, 3).Draw(rt, "churn") > 0, Warm: rapid.IntRange(0, 1).Draw(rt, "warm")}
		np := rapid.IntRange(2, 8).Draw(rt, "nprobes")
		for i := 0; i < np; i++ {
			c.Probes = append(c.Probes, c03cProbe{
				Kind: rapid.SampledFrom([]string{"random", "random", "flip-genuine", "other-client-flight", "long"}).Draw(rt, "kind"),
				Len:  rapid.SampledFrom([]int{0, 1, 31, 32, 33, 100, 900, 4000}).Draw(rt, "len"),
				Key:  rapid.IntRange(0, 1<<16).Draw(rt, "key"),
				Segs: rapid.IntRange(1, 6).Draw(rt, "segs"),
				Bit:  rapid.IntRange(0, 255).Draw(rt, "bit"),
			})
		}
		nc := rapid.IntRange(1, 3).Draw(rt, "nclients")
		for i := 0; i < nc; i++ {
			c.Clients = append(c.Clients, rapid.SampledFrom([]int{0, 0, 1, 1}).Draw(rt, "ctt"))
		}
		c03cRun(rt, rec, e, c)
	})
}

// Flood: many unauthenticated connections are inside the classification stage AT THE SAME TIME, all
// of them from one client address or spread over a few. Each one is owed the same treatment as a
// lone probe; how many others are being classified, or where they come from, must not show.
type c03fCase struct {
	V6      bool        `json:"v6"`
	N       int         `json:"n"`       // simultaneous probers
	Sources int         `json:"sources"` // distinct client addresses they come from
	Regs    bool        `json:"regs"`    // registrations exist on the probed phantom
	Probes  []c03cProbe `json:"probes"`  // prober i sends Probes[i % len]
}

func c03fRun(t vh.Fataler, rec *vh.Rec, e *aEnv, c c03fCase) {
	cj.VerifResetRegistry(e.rm)
	if c.Regs {
		for i := 0; i < 9; i++ {
			reg, err := e.aMakeReg(aRegSpec{Secret: 20 + i, TT: i % 3, Phantom: 0, V6: c.V6, Covert: "192.0.2.10:443"})
			if err != nil {
				t.Fatalf("harness problem: %v", err)
			}
			cj.VerifIngest(e.rm, reg)
		}
	}
	phantom := aPhantom(0, c.V6)
	type probeRun struct {
		p    c03cProbe
		conn *vconn.Conn
		ok   bool
		pan  any
		dur  time.Duration
		n    int
	}
	var mu sync.Mutex
	inside, finished := 0, 0
	release := make(chan struct{})
	var once sync.Once
	check := func() {
		// called with mu held: everybody is either waiting inside its first read or has returned
		if inside+finished >= c.N {
			once.Do(func() { close(release) })
		}
	}
	probes := make([]*probeRun, c.N)
	for i := range probes {
		p := c.Probes[i%len(c.Probes)]
		p.Key += i
		data := c03cProbeData(t, e, p)
		cut := 1 + (len(data)-1)/2
		src := i % c.Sources
		remote := fmt.Sprintf("203.0.113.%d:%d", 10+src, 20000+i)
		if c.V6 {
			remote = fmt.Sprintf("[2001:db8::%x]:%d", 0x10+src, 20000+i)
		}
		conn := vconn.New(vconn.Script{Reads: []vconn.Step{{Data: vh.Hex(data[:cut]), Hook: "gate"}, {Data: vh.Hex(data[cut:])}}, End: "hold", Remote: remote})
		conn.OnHook = func(string) {
			mu.Lock()
			inside++
			check()
			mu.Unlock()
			select {
			case <-release:
			case <-time.After(30 * time.Second):
			}
		}
		probes[i] = &probeRun{p: p, n: len(data), conn: conn}
	}
	var wg sync.WaitGroup
	for _, pr := range probes {
		wg.Add(1)
		go func(pr *probeRun) {
			defer wg.Done()
			pr.ok, pr.pan, pr.dur = e.aRunHandler(pr.conn, phantom, 120*time.Second)
			mu.Lock()
			finished++
			check()
			mu.Unlock()
		}(pr)
	}
	wg.Wait()
	mu.Lock()
	peak := inside
	mu.Unlock()
	classes := []string{fmt.Sprintf("sources:%d", c.Sources)}
	switch {
	case peak >= 256:
		classes = append(classes, "simultaneous>=256")
	case peak >= 65:
		classes = append(classes, "simultaneous>=65")
	}
	rec.Case(peak >= 65, vh.Digest(c), c, classes...)
	for i, pr := range probes {
		if !pr.ok {
			rec.Violation(t, "handler-stuck", c, "prober %d of %d simultaneous ones: its handler did not return within 120 s:\n%s", i, c.N, c03cStack("handleNewTCPConn"))
			return
		}
		key, msg, _ := c03Oracle(pr.conn, pr.ok, pr.pan, pr.dur)
		if key != "" {
			rec.Violation(t, "flood:"+key, c, "prober %d (%s, %d bytes) of %d simultaneous probers from %d client address(es) (%d of them reached their first read): %s", i, pr.p.Kind, pr.n, c.N, c.Sources, peak, msg)
			return
		}
	}
}

func TestVerif_C03_flood(t *testing.T) {
	rec := vh.NewRec("C03", "flood", "N = 65..600 probers (random / one-bit-flipped flight / foreign flight / >8 KiB) from 1-7 client addresses are held inside the classification stage at the same time (each blocks in its first read until all have arrived), with and without registrations on the phantom; oracle: every one of them passes the single-connection oracle (no byte written, deadline set first and in range, not closed before 5 s, read until the deadline); built with the race detector; non-trivial = at least 65 handlers were inside the stage simultaneously; distinct by case")
	defer rec.Flush()
	rec.Require("simultaneous>=65", "sources:1")
	defer aSilenceStdout()()
	e := aNewEnv(t)
	if p := vh.ReplayFile(); p != "" {
		var c c03fCase
		if _, _, err := vh.LoadReplay(p, &c); err != nil {
			t.Fatal(err)
		}
		c03fRun(t, rec, e, c)
		return
	}
	rapid.Check(t, func(rt *rapid.T) {
		c := c03fCase{V6: rapid.IntRange(0, 3).Draw(rt, "v6") == 0, Regs: rapid.IntRange(0, 3).Draw(rt, "regs") > 0}
		c.N = rapid.SampledFrom([]int{65, 66, 100, 129, 200, 257, 400, 600}).Draw(rt, "n")
		c.Sources = rapid.SampledFrom([]int{1, 1, 1, 2, 7}).Draw(rt, "sources")
		np := rapid.IntRange(1, 4).Draw(rt, "nkinds")
		for i := 0; i < np; i++ {
			kinds := []string{"random", "random", "other-client-flight", "long"}
			if c.Regs {
				kinds = append(kinds, "flip-genuine")
			}
			c.Probes = append(c.Probes, c03cProbe{
				Kind: rapid.SampledFrom(kinds).Draw(rt, "kind"),
				Len:  rapid.SampledFrom([]int{0, 1, 31, 32, 33, 100, 900}).Draw(rt, "len"),
				Key:  rapid.IntRange(0, 1<<16).Draw(rt, "key"),
				Bit:  rapid.IntRange(0, 255).Draw(rt, "bit"),
			})
		}
		c03fRun(rt, rec, e, c)
	})
}
