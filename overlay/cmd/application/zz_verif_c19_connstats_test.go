package main

// C19 (connection statistics part) — the connection stats module of `package main`, wired the way
// main.go wires it (newConnManager(nil); conf.RegConfig.ConnectingStats = connManager;
// NewRegistrationManager(conf.RegConfig); registered as the verbose stats module), never panics in
// PrintAndReset / Reset, whatever connection-state transitions and connecting-transport events were
// counted since the last epoch and whatever (ASN, country code) the configured GeoIP source gave.

import (
	"bytes"
	"fmt"
	golog "log"
	"os"
	"path/filepath"
	"runtime/debug"
	"sort"
	"strings"
	"sync"
	"sync/atomic"
	"testing"

	cj "github.com/refraction-networking/conjure/pkg/station/lib"
	"github.com/refraction-networking/conjure/pkg/station/log"
	"pgregory.net/rapid"
	"verif/harness/vh"
)

type c19COp struct {
	Kind string `json:"k"` // t (transition / connecting event #M) | print | reset
	M    int    `json:"m,omitempty"`
	ASN  uint   `json:"asn,omitempty"`
	CC   string `json:"cc,omitempty"`
	V4   bool   `json:"v4,omitempty"`
}

type c19CCase struct {
	Config string   `json:"config"` // "shipped" | TOML text
	Ops    []c19COp `json:"ops"`
}

const c19CSubnets = `
[Networks]
    [Networks.957]
        Generation = 957
        [[Networks.957.WeightedSubnets]]
            Weight = 9
            Subnets = ["192.122.190.0/24", "2001:48a8:687f:1::/64"]
`

var c19CConfigs = []string{
	"shipped",
	"enable_v4 = true\n",
	"enable_v4 = true\ncache_expiration_time = \"2.0h\"\n",
	"enable_v4 = true\ncache_expiration_nonlive = \"5m\"\ncache_capacity_nonlive = 3\n",
	"enable_v4 = true\ngeoip_cc_db_path = \"\"\ngeoip_asn_db_path = \"\"\ncovert_blocklist_subnets = [\"10.0.0.0/8\"]\n",
}

func c19CRecover(f func()) (val, stack string) {
	defer func() {
		if r := recover(); r != nil {
			val, stack = fmt.Sprint(r), string(debug.Stack())
		}
	}()
	f()
	return "", ""
}

func c19CFrame(stack string) string {
	seen := false
	for _, ln := range strings.Split(stack, "\n") {
		if strings.HasPrefix(ln, "panic(") {
			seen = true
			continue
		}
		if seen && strings.HasPrefix(ln, "\t") && strings.Contains(ln, ".go:") && !strings.Contains(ln, "zz_verif") && !strings.Contains(ln, "/src/runtime/") {
			f := strings.TrimSpace(ln)
			if i := strings.Index(f, " +0x"); i > 0 {
				f = f[:i]
			}
			return f
		}
	}
	return ""
}

func c19CMethods(cm *connManager) []func(asn uint, cc string, v4 bool) {
	tp := func(f func(uint, string, string)) func(uint, string, bool) {
		return func(asn uint, cc string, _ bool) { f(asn, cc, "dtls") }
	}
	return []func(uint, string, bool){
		cm.addCreated, cm.createdToDiscard, cm.createdToCheck, cm.createdToReset, cm.createdToTimeout, cm.createdToError, cm.createdToClose,
		cm.readToCheck, cm.readToTimeout, cm.readToReset, cm.readToError,
		cm.checkToCreated, cm.checkToRead, cm.checkToFound, cm.checkToError, cm.checkToDiscard,
		cm.discardToReset, cm.discardToTimeout, cm.discardToError, cm.discardToClose,
		tp(cm.AddCreatedConnecting), tp(cm.AddCreatedToListenSuccessfulConnecting), tp(cm.AddCreatedToDialSuccessfulConnecting),
		tp(cm.AddCreatedToSuccessfulConnecting), tp(cm.AddCreatedToTimeoutConnecting), tp(cm.AddSuccessfulToDiscardedConnecting),
		tp(cm.AddAuthFailConnecting), tp(cm.AddOtherFailConnecting),
	}
}

const c19CNMethods = 28

type c19CCtx struct {
	confPath string
}

func c19CRun(x *c19CCtx, c c19CCase) (string, string, map[string]bool) {
	cls := map[string]bool{}
	text := c.Config
	if text == "shipped" {
		repo := os.Getenv("VERIF_REPO")
		if repo == "" {
			repo = "/repo"
		}
		b, err := os.ReadFile(filepath.Join(repo, "cmd", "application", "app_config.toml"))
		if err != nil {
			return "harness", err.Error(), cls
		}
		text = string(b)
		cls["shipped-file"] = true
	}
	if err := os.WriteFile(x.confPath, []byte(text), 0o644); err != nil {
		return "harness", err.Error(), cls
	}
	var conf *cj.Config
	var err error
	if v, _ := c19CRecover(func() { conf, err = cj.ParseConfig() }); v != "" {
		cls["parseconfig-panicked-judged-in-lib-unit"] = true
		return "", "", cls
	}
	if err != nil || conf.RegConfig == nil {
		cls["rejected"] = true
		return "", "", cls
	}
	// main.go
	connManager := newConnManager(nil)
	conf.RegConfig.ConnectingStats = connManager
	var rm *cj.RegistrationManager
	if v, st := c19CRecover(func() { rm = cj.NewRegistrationManager(conf.RegConfig) }); v != "" {
		return "panic:new-regmanager", fmt.Sprintf("NewRegistrationManager panicked: %s [%s]", v, c19CFrame(st)), cls
	}
	if rm == nil {
		cls["rejected"] = true
		return "", "", cls
	}
	cls["accepted"] = true
	var buf bytes.Buffer
	logger := log.New(&buf, "[STATS] ", golog.Ldate|golog.Lmicroseconds)
	logger.SetLevel(log.TraceLevel)
	methods := c19CMethods(connManager)
	for i, o := range c.Ops {
		switch o.Kind {
		case "t":
			m := methods[o.M%len(methods)]
			if v, _ := c19CRecover(func() { m(o.ASN, o.CC, o.V4) }); v != "" {
				cls["counter-panicked-not-judged"] = true
			}
			if o.CC != "" {
				cls["geoip-attributed-event"] = true
			}
		case "print":
			if v, st := c19CRecover(func() { connManager.PrintAndReset(logger) }); v != "" {
				return "panic:conn-printstats", fmt.Sprintf("step %d: PrintAndReset of the connection stats module panicked: %s [%s]", i, v, c19CFrame(st)), cls
			}
			if strings.Contains(buf.String(), "conn-stats-verbose") {
				cls["printed-per-asn-lines"] = true
			}
			buf.Reset()
		case "reset":
			if v, st := c19CRecover(func() { connManager.Reset() }); v != "" {
				return "panic:conn-printstats", fmt.Sprintf("step %d: Reset of the connection stats module panicked: %s [%s]", i, v, c19CFrame(st)), cls
			}
		}
	}
	return "", "", cls
}

func c19CCheck(t vh.Fataler, rec *vh.Rec, x *c19CCtx, c c19CCase) {
	key, msg, cls := c19CRun(x, c)
	var classes []string
	for k := range cls {
		classes = append(classes, k)
	}
	sort.Strings(classes)
	rec.Case(c.Config != "shipped", vh.Digest(c), c, classes...)
	if key == "harness" {
		t.Fatalf("harness problem: %s", msg)
	}
	if key != "" {
		rec.Violation(t, key, c, "%s", msg)
	}
}

func TestVerif_C19_connstats(t *testing.T) {
	rec := vh.NewRec("C19", "connstats", "the shipped configuration and 4 small generated ones loaded through ParseConfig and wired as main.go does (connection manager as ConnectingStats and verbose stats module), then rapid-generated histories of 1-60 {one of the 20 connection-state transitions / 8 connecting-transport events with (ASN, country code, family) drawn from what any GeoIP source can return incl. empty and \"unk\", PrintAndReset, Reset}; oracle: PrintAndReset / Reset never panic; non-trivial = not the shipped configuration; distinct by (configuration, history)")
	defer rec.Flush()
	rec.Require("accepted", "printed-per-asn-lines", "geoip-attributed-event")
	dir := t.TempDir()
	x := &c19CCtx{confPath: filepath.Join(dir, "app_config.toml")}
	os.Setenv("CJ_STATION_CONFIG", x.confPath)
	sp := filepath.Join(dir, "phantom_subnets.toml")
	if err := os.WriteFile(sp, []byte(c19CSubnets), 0o644); err != nil {
		t.Fatalf("harness problem: %v", err)
	}
	os.Setenv("PHANTOM_SUBNET_LOCATION", sp)
	if p := vh.ReplayFile(); p != "" {
		var c c19CCase
		if _, _, err := vh.LoadReplay(p, &c); err != nil {
			t.Fatal(err)
		}
		c19CCheck(t, rec, x, c)
		return
	}
	rapid.Check(t, func(rt *rapid.T) {
		c := c19CCase{Config: rapid.SampledFrom(c19CConfigs).Draw(rt, "config")}
		n := rapid.IntRange(1, 60).Draw(rt, "n")
		for i := 0; i < n; i++ {
			o := c19COp{Kind: rapid.SampledFrom([]string{"t", "t", "t", "t", "t", "print", "reset"}).Draw(rt, "k")}
			if o.Kind == "t" {
				o.M = rapid.IntRange(0, c19CNMethods-1).Draw(rt, "m")
				o.ASN = rapid.SampledFrom([]uint{0, 1, 64512, 4294967295}).Draw(rt, "asn")
				o.CC = rapid.SampledFrom([]string{"", "US", "unk", "ZZ", "IR"}).Draw(rt, "cc")
				o.V4 = rapid.Bool().Draw(rt, "v4")
			}
			c.Ops = append(c.Ops, o)
		}
		c.Ops = append(c.Ops, c19COp{Kind: "print"}, c19COp{Kind: "print"})
		c19CCheck(rt, rec, x, c)
	})
}

// TestVerif_C19_connrace (built with -race): the connection stats module wired as in main.go, its
// PrintAndReset looping (the verbose statistics tick) while 4 goroutines count connection-state
// transitions and connecting-transport events for varying (ASN, country code, family), as the
// connection handlers and the DTLS callbacks do. Oracle: no recovered panic; a race report or a
// runtime fatal error fails the binary (vcheck reports the crash).
func TestVerif_C19_connrace(t *testing.T) {
	rec := vh.NewRec("C19", "connrace", "race-detector build: for the shipped and 4 small configurations wired as main.go does, one goroutine loops PrintAndReset (and every 16th time Reset) of the connection stats module while 4 goroutines call all 28 transition / connecting-event counters over (ASN, country code incl. empty, family) combinations; work bounded by operation counts; oracle: no panic, no race report; non-trivial = not the shipped configuration; distinct by configuration")
	defer rec.Flush()
	rec.Require("accepted", "ticks-ran-during-activity")
	dir := t.TempDir()
	x := &c19CCtx{confPath: filepath.Join(dir, "app_config.toml")}
	os.Setenv("CJ_STATION_CONFIG", x.confPath)
	sp := filepath.Join(dir, "phantom_subnets.toml")
	if err := os.WriteFile(sp, []byte(c19CSubnets), 0o644); err != nil {
		t.Fatalf("harness problem: %v", err)
	}
	os.Setenv("PHANTOM_SUBNET_LOCATION", sp)
	for ci, cfg := range c19CConfigs {
		if !vh.Mine(ci) {
			continue
		}
		c := c19CCase{Config: cfg}
		text := cfg
		if text == "shipped" {
			repo := os.Getenv("VERIF_REPO")
			if repo == "" {
				repo = "/repo"
			}
			b, err := os.ReadFile(filepath.Join(repo, "cmd", "application", "app_config.toml"))
			if err != nil {
				t.Fatalf("harness problem: %v", err)
			}
			text = string(b)
		}
		if err := os.WriteFile(x.confPath, []byte(text), 0o644); err != nil {
			t.Fatalf("harness problem: %v", err)
		}
		conf, err := cj.ParseConfig()
		if err != nil || conf.RegConfig == nil {
			rec.Case(cfg != "shipped", vh.Digest(c), c, "rejected")
			continue
		}
		connManager := newConnManager(nil)
		conf.RegConfig.ConnectingStats = connManager
		if rm := cj.NewRegistrationManager(conf.RegConfig); rm == nil {
			rec.Case(cfg != "shipped", vh.Digest(c), c, "rejected")
			continue
		}
		logger := log.New(c19CDiscard{}, "[STATS] ", golog.Ldate|golog.Lmicroseconds)
		logger.SetLevel(log.TraceLevel)
		methods := c19CMethods(connManager)
		cls := []string{"accepted"}
		if c19CNonAtomicConnectingReset() {
			// resetConnecting() clears the seven connecting-transport totals with a plain struct
			// assignment while the DTLS callbacks add to them atomically: a data race on integer
			// counters that can lose an increment but cannot panic, i.e. not a C19 violation. The race
			// detector cannot tell it from a fatal one, so those 8 events are left out of the
			// concurrent mix for as long as the tree has that assignment (recorded as a class).
			methods = methods[:20]
			cls = append(cls, "connecting-events-excluded:non-atomic-reset")
		} else {
			cls = append(cls, "connecting-events-included")
		}
		var stop int32
		var ticks int64
		var mu sync.Mutex
		var fails []string
		guard := func(who string, f func()) {
			if v, st := c19CRecover(f); v != "" {
				mu.Lock()
				fails = append(fails, fmt.Sprintf("%s: %s [%s]", who, v, c19CFrame(st)))
				mu.Unlock()
			}
		}
		var workers, printer sync.WaitGroup
		printer.Add(1)
		go func() {
			defer printer.Done()
			guard("stats-tick", func() {
				for atomic.LoadInt32(&stop) == 0 {
					connManager.PrintAndReset(logger)
					if n := atomic.AddInt64(&ticks, 1); n%16 == 0 {
						connManager.Reset()
					}
				}
			})
		}()
		n := vh.Pick(3000, 40000)
		ccs := []string{"", "US", "unk", "IR", "ZZ"}
		asns := []uint{0, 1, 64512, 4294967295}
		for g := 0; g < 4; g++ {
			g := g
			workers.Add(1)
			go func() {
				defer workers.Done()
				guard("counters", func() {
					for i := 0; i < n; i++ {
						k := i*4 + g
						methods[k%len(methods)](asns[(k/3)%len(asns)], ccs[(k/5)%len(ccs)], k%2 == 0)
					}
				})
			}()
		}
		workers.Wait()
		atomic.StoreInt32(&stop, 1)
		printer.Wait()
		if atomic.LoadInt64(&ticks) > 1 {
			cls = append(cls, "ticks-ran-during-activity")
		}
		rec.Case(cfg != "shipped", vh.Digest(c), c, cls...)
		sort.Strings(fails)
		for _, f := range fails {
			rec.Violation(t, "panic:concurrent:connstats", c, "connection stats printed concurrently with counting: %s", f)
		}
	}
	rec.SetExhaustive(true)
}

type c19CDiscard struct{}

func (c19CDiscard) Write(p []byte) (int, error) { return len(p), nil }

// c19CNonAtomicConnectingReset reports whether the tree under test still clears the connecting
// totals with a plain struct assignment (see TestVerif_C19_connrace).
func c19CNonAtomicConnectingReset() bool {
	repo := os.Getenv("VERIF_REPO")
	if repo == "" {
		repo = "/repo"
	}
	b, err := os.ReadFile(filepath.Join(repo, "cmd", "application", "connectingStats.go"))
	if err != nil {
		return true
	}
	return strings.Contains(string(b), "c.connectingCounts = connectingCounts{}")
}
