package main

// C11, first-flight entry points: registries built from GENERATED registration messages.
//
// A first flight is a two-step input: the registrations a phantom holds come from attacker-
// influenced registration messages, and the bytes then sent to the phantom are matched against
// them. The wrap and conn sub-checks therefore also build (part of) the registry by feeding
// generated C2SWrapper messages through the station's real ingest path (parseRegMessage ->
// ingestRegistration, via lib.VerifC11Ingest) — transport parameters absent / matching / of another
// transport's type / with omitted optional fields / corrupt, client library versions 0..5,
// generations whose phantom subnets do and do not support port randomisation, registrar responses
// that override phantom, port and parameters — and then offer first flights that are GENUINE for
// those registrations: written by the real client transports (min, prefix for every supported
// prefix id, obfs4) for the registration's secret and the station key, followed by the case's bytes.

import (
	"context"
	"encoding/binary"
	"errors"
	"fmt"
	"net"
	"os"
	"path/filepath"
	"sync/atomic"
	"testing"
	"time"

	"github.com/refraction-networking/conjure/pkg/phantoms"
	cj "github.com/refraction-networking/conjure/pkg/station/lib"
	"github.com/refraction-networking/conjure/pkg/transports"
	cdtls "github.com/refraction-networking/conjure/pkg/transports/connecting/dtls"
	pb "github.com/refraction-networking/conjure/proto"
	"google.golang.org/protobuf/proto"
	"google.golang.org/protobuf/types/known/anypb"
	"pgregory.net/rapid"
	"verif/harness/c11h"
	"verif/harness/vh"
)

// generation 1: no subnet supports port randomisation (the station then fixes the port to 443
// without consulting the transport); generation 957: 9:1 with : without.
const c11Subnets = `
[Networks]
    [Networks.1]
        Generation = 1
        [[Networks.1.WeightedSubnets]]
            Weight = 9
            Subnets = ["192.122.190.0/24", "2001:48a8:687f:1::/64"]
    [Networks.957]
        Generation = 957
        [[Networks.957.WeightedSubnets]]
            Weight = 9
            RandomizeDstPort = true
            Subnets = ["192.122.190.0/24", "2001:48a8:687f:1::/64"]
        [[Networks.957.WeightedSubnets]]
            Weight = 1
            RandomizeDstPort = false
            Subnets = ["141.219.0.0/16", "35.8.0.0/16"]
`

// c11StubDTLS is the DTLS transport with Connect replaced (it fails at once): a generated
// registration message may name the DTLS transport, and ingest then starts the connecting goroutine.
type c11StubDTLS struct{ cdtls.Transport }

func (*c11StubDTLS) Connect(ctx context.Context, reg transports.Registration) (net.Conn, error) {
	return nil, errors.New("verif: no network")
}

type c11AppConnStats struct{ finished atomic.Int64 }

func (s *c11AppConnStats) AddCreatedConnecting(uint, string, string)               {}
func (s *c11AppConnStats) AddCreatedToSuccessfulConnecting(uint, string, string)   {}
func (s *c11AppConnStats) AddCreatedToTimeoutConnecting(uint, string, string)      { s.finished.Add(1) }
func (s *c11AppConnStats) AddSuccessfulToDiscardedConnecting(uint, string, string) { s.finished.Add(1) }
func (s *c11AppConnStats) AddOtherFailConnecting(uint, string, string)             { s.finished.Add(1) }

// c11InstallIngest prepares the environment for real ingest: the two-generation subnet file, the
// stubbed connecting transport and its stats sink.
func (e *c11AppEnv) c11InstallIngest(tb testing.TB) {
	p := filepath.Join(tb.TempDir(), "c11_phantom_subnets.toml")
	if err := os.WriteFile(p, []byte(c11Subnets), 0o644); err != nil {
		tb.Fatalf("harness problem: %v", err)
	}
	sel, err := phantoms.SubnetsFromTomlFile(p)
	if err != nil {
		tb.Fatalf("harness problem: %v", err)
	}
	e.rm.PhantomSelector = sel
	if err := e.rm.AddTransport(pb.TransportType_DTLS, &c11StubDTLS{}); err != nil {
		tb.Fatalf("harness problem: %v", err)
	}
	e.cs = &c11AppConnStats{}
	cj.VerifC11SetConnectingStats(e.rm, e.cs)
}

// c11FlightSel selects a genuine first flight for one of the registrations the case's messages created.
type c11FlightSel struct {
	Reg      int    `json:"reg"`  // index (mod count) into the registrations created by reg_msgs
	Kind     string `json:"kind"` // min | prefix | obfs4
	PrefixID int32  `json:"prefix_id,omitempty"`
	Default  bool   `json:"probe_default_phantom,omitempty"` // connect to the fixed test phantom instead of the registration's
}

// c11Ingest feeds the messages to the real ingest path and returns the registrations created.
func (e *c11AppEnv) c11Ingest(msgs []vh.Hex) (created []*cj.DecoyRegistration, classes []string, o c11h.Outcome) {
	if len(msgs) == 0 {
		return nil, nil, o
	}
	e.dirty = true
	e.cs.finished.Store(0)
	cls := map[string]bool{}
	want := int64(0)
	o = c11h.Guard(c11h.Bound, func() {
		for _, m := range msgs {
			before := len(e.Anns())
			regs, err := cj.VerifC11Ingest(e.rm, append([]byte(nil), m...))
			if err != nil {
				cls["gen:rejected"] = true
				continue
			}
			if len(regs) == 0 {
				cls["gen:no-family"] = true
			}
			created = append(created, regs...)
			for _, a := range e.Anns()[before:] {
				if a.Reg != nil && a.Reg.Transport == pb.TransportType_DTLS {
					want++
				}
			}
		}
		for e.cs.finished.Load() < want { // the stubbed Connect fails at once
			time.Sleep(50 * time.Microsecond)
		}
	})
	if o.Hung || o.Inconclusive || o.Panic != nil {
		return nil, []string{"gen:gave-up"}, o
	}
	for _, reg := range created {
		_, valid, _ := cj.VerifRegState(e.rm, reg)
		if !valid {
			cls["gen:created-not-valid"] = true
			continue
		}
		cls["gen:accepted"] = true
		cls["gen:accepted:"+reg.Transport.String()] = true
		switch p := reg.TransportParams().(type) {
		case nil:
			cls["gen:accepted-params-nil"] = true
			cls["gen:accepted-params-nil:"+reg.Transport.String()] = true
		case *pb.PrefixTransportParams:
			if p.PrefixId == nil {
				cls["gen:accepted-prefix-id-omitted"] = true
			}
		}
	}
	for k := range cls {
		classes = append(classes, k)
	}
	return created, classes, o
}

// c11BuildFlight returns the phantom to probe and the bytes to send: the genuine flight selected by
// fl for one of the created registrations followed by data, or data alone.
func (e *c11AppEnv) c11BuildFlight(created []*cj.DecoyRegistration, fl *c11FlightSel, data []byte, v6 bool) (ph net.IP, out []byte, classes []string, err error) {
	ph = aPhantom(0, v6)
	if fl == nil || len(created) == 0 {
		return ph, data, nil, nil
	}
	reg := created[((fl.Reg%len(created))+len(created))%len(created)]
	if !fl.Default && (len(reg.PhantomIp) == 4 || len(reg.PhantomIp) == 16) {
		ph = reg.PhantomIp
	}
	secret := reg.Keys.SharedSecret
	var head []byte
	switch fl.Kind {
	case "min":
		w, ferr := e.aFlight(secret, pb.TransportType_Min, 0, 0)
		if ferr != nil {
			return nil, nil, nil, ferr
		}
		head = aJoin(w)
	case "obfs4":
		hs, ferr := e.aObfs4Handshake(secret)
		if ferr != nil {
			return nil, nil, nil, ferr
		}
		head = hs
	default:
		w, ferr := e.aFlight(secret, pb.TransportType_Prefix, fl.PrefixID, 0)
		if ferr != nil {
			return nil, nil, nil, ferr
		}
		head = aJoin(w)
	}
	classes = []string{"flight-for-generated-reg", "flight-for-generated-reg:" + fl.Kind}
	if (fl.Kind == "min" && reg.Transport == pb.TransportType_Min) || (fl.Kind == "prefix" && reg.Transport == pb.TransportType_Prefix) ||
		(fl.Kind == "obfs4" && reg.Transport == pb.TransportType_Obfs4) {
		classes = append(classes, "flight-matches-reg-transport")
		if _, valid, _ := cj.VerifRegState(e.rm, reg); valid {
			classes = append(classes, "genuine-flight-for-accepted-generated-reg")
			if reg.TransportParams() == nil {
				classes = append(classes, "genuine-flight-for-params-nil-reg")
			}
		}
	}
	return ph, append(append([]byte(nil), head...), data...), classes, nil
}

// ---- generator of registration messages -----------------------------------------------------------

var c11GenLibvers = []uint32{4, 3, 5, 2, 1, 0}

func c11PinnedResponse(v6 bool, k int) *pb.RegistrationResponse {
	rr := &pb.RegistrationResponse{}
	ph := aPhantom(k, v6)
	if v6 {
		rr.Ipv6Addr = []byte(ph.To16())
	} else {
		rr.Ipv4Addr = proto.Uint32(binary.BigEndian.Uint32(ph.To4()))
	}
	return rr
}

// c11GenRegMsg draws one registration message aimed at being ACCEPTED by ingest while odd in one or
// two respects (see the file comment); a fifth of the messages come from the general field-by-field
// generator of the zmq sub-check.
func c11GenRegMsg(rt *rapid.T, label string, secret int) (msg []byte, tt pb.TransportType) {
	if rapid.IntRange(0, 4).Draw(rt, label+"_general") == 4 {
		w := c11h.NewG(rt, c11h.Dom{Gens: []uint32{1, 957}}).Wrapper()
		b, err := proto.Marshal(w)
		if err != nil {
			rt.Fatalf("harness problem: %v", err)
		}
		return b, w.GetRegistrationPayload().GetTransport()
	}
	g := c11h.NewG(rt, c11h.Dom{})
	tt = rapid.SampledFrom([]pb.TransportType{pb.TransportType_Prefix, pb.TransportType_Prefix, pb.TransportType_Min, pb.TransportType_Obfs4, pb.TransportType_Prefix, pb.TransportType_DTLS}).Draw(rt, label+"_tt")
	v6 := rapid.IntRange(0, 3).Draw(rt, label+"_v6") == 3
	c2s := &pb.ClientToStation{
		ClientLibVersion:    proto.Uint32(rapid.SampledFrom(c11GenLibvers).Draw(rt, label+"_libver")),
		DecoyListGeneration: proto.Uint32(rapid.SampledFrom([]uint32{1, 957, 957}).Draw(rt, label+"_gen")),
		CovertAddress:       proto.String(c11Covert),
		V4Support:           proto.Bool(!v6),
		V6Support:           proto.Bool(v6 || rapid.IntRange(0, 3).Draw(rt, label+"_both") == 3),
		Transport:           tt.Enum(),
	}
	if rapid.IntRange(0, 3).Draw(rt, label+"_libver_absent") == 3 && rapid.Bool().Draw(rt, label+"_libver_absent2") {
		c2s.ClientLibVersion = nil
	}
	if rapid.IntRange(0, 2).Draw(rt, label+"_flags") != 2 {
		c2s.Flags = &pb.RegistrationFlags{}
		if rapid.Bool().Draw(rt, label+"_prescanned") {
			c2s.Flags.Prescanned = proto.Bool(true)
		}
	}
	kind := c11h.KindFor(int32(tt))
	mk := func(m proto.Message, url string) *anypb.Any {
		a, err := anypb.New(m)
		if err != nil {
			rt.Fatalf("harness problem: %v", err)
		}
		switch url {
		case "empty":
			a.TypeUrl = ""
		case "tapdance":
			a.TypeUrl = "type.googleapis.com/tapdance." + string(m.ProtoReflect().Descriptor().Name())
		}
		return a
	}
	url := rapid.SampledFrom([]string{"full", "full", "empty", "tapdance"}).Draw(rt, label+"_url")
	switch rapid.SampledFrom([]string{"absent", "absent", "matching", "matching", "matching-sparse", "foreign", "empty-message", "general"}).Draw(rt, label+"_params") {
	case "absent":
	case "matching":
		switch kind {
		case "prefix":
			c2s.TransportParams = mk(&pb.PrefixTransportParams{PrefixId: proto.Int32(rapid.SampledFrom(aPrefixIDs).Draw(rt, label+"_pid")),
				RandomizeDstPort: proto.Bool(rapid.Bool().Draw(rt, label+"_rand"))}, url)
		case "dtls":
			c2s.TransportParams = mk(&pb.DTLSTransportParams{SrcAddr4: &pb.Addr{IP: []byte{198, 51, 100, 7}, Port: proto.Uint32(40000)}}, url)
		default:
			c2s.TransportParams = mk(&pb.GenericTransportParams{RandomizeDstPort: proto.Bool(rapid.Bool().Draw(rt, label+"_rand"))}, url)
		}
	case "matching-sparse":
		// the right message type with optional fields omitted
		switch kind {
		case "prefix":
			m := &pb.PrefixTransportParams{}
			if rapid.Bool().Draw(rt, label+"_keeprand") {
				m.RandomizeDstPort = proto.Bool(rapid.Bool().Draw(rt, label+"_rand"))
			}
			if rapid.IntRange(0, 2).Draw(rt, label+"_keepflush") == 2 {
				m.CustomFlushPolicy = proto.Int32(1)
			}
			c2s.TransportParams = mk(m, url)
		case "dtls":
			c2s.TransportParams = mk(&pb.DTLSTransportParams{}, url)
		default:
			c2s.TransportParams = mk(&pb.GenericTransportParams{}, url)
		}
	case "foreign":
		// another transport's parameter message; with no type URL (DNS registrar) the station cannot tell
		other := rapid.SampledFrom([]string{"generic", "prefix", "dtls"}).Draw(rt, label+"_foreign")
		c2s.TransportParams = mk(g.ParamsMsg(label+"_fp", other), rapid.SampledFrom([]string{"empty", "empty", "full"}).Draw(rt, label+"_furl"))
	case "empty-message":
		c2s.TransportParams = &anypb.Any{TypeUrl: "", Value: nil}
	default:
		c2s.TransportParams = g.Any(label+"_any", kind)
	}
	w := &pb.C2SWrapper{SharedSecret: aSecret(secret), RegistrationPayload: c2s,
		RegistrationSource:  pb.RegistrationSource(rapid.SampledFrom([]int32{2, 2, 4, 1, 3, 5, 6, 0}).Draw(rt, label+"_src")).Enum(),
		RegistrationAddress: []byte(net.IPv4(198, 51, 100, 7).To4())}
	if rapid.IntRange(0, 5).Draw(rt, label+"_addr16") == 5 {
		w.RegistrationAddress = []byte(net.IPv4(198, 51, 100, 7).To16())
	}
	// registrar response: none (derived phantom) / pinned phantom / pinned + port / + parameter override
	switch rapid.SampledFrom([]string{"none", "none", "pin", "pin", "pin+port", "pin+params", "params-only", "port-only"}).Draw(rt, label+"_rr") {
	case "pin":
		w.RegistrationResponse = c11PinnedResponse(v6, rapid.IntRange(0, 1).Draw(rt, label+"_pink"))
	case "pin+port":
		w.RegistrationResponse = c11PinnedResponse(v6, 0)
		w.RegistrationResponse.DstPort = proto.Uint32(rapid.SampledFrom([]uint32{443, 80, 1024, 65535, 65536, 0}).Draw(rt, label+"_port"))
	case "pin+params":
		w.RegistrationResponse = c11PinnedResponse(v6, 0)
		w.RegistrationResponse.TransportParams = g.Any(label+"_rrany", rapid.SampledFrom([]string{"prefix", "prefix", "generic", "dtls"}).Draw(rt, label+"_rrkind"))
	case "params-only":
		w.RegistrationResponse = &pb.RegistrationResponse{TransportParams: g.Any(label+"_rrany", kind)}
	case "port-only":
		w.RegistrationResponse = &pb.RegistrationResponse{DstPort: proto.Uint32(rapid.SampledFrom([]uint32{443, 8443}).Draw(rt, label+"_port"))}
	}
	if rapid.IntRange(0, 4).Draw(rt, label+"_disable") == 4 {
		c2s.DisableRegistrarOverrides = proto.Bool(true)
	}
	b, err := proto.Marshal(w)
	if err != nil {
		rt.Fatalf("harness problem: %v", err)
	}
	return b, tt
}

// c11GenRegistry draws 0-3 registration messages and a flight selection for one of them.
func c11GenRegistry(rt *rapid.T) (msgs []vh.Hex, fl *c11FlightSel) {
	n := rapid.SampledFrom([]int{0, 1, 1, 1, 2, 3}).Draw(rt, "ngen")
	if n == 0 {
		return nil, nil
	}
	var tts []pb.TransportType
	for i := 0; i < n; i++ {
		// secrets 20.. are not used by the fixed registrations; two messages may share a secret
		m, tt := c11GenRegMsg(rt, fmt.Sprintf("g%d", i), 20+rapid.IntRange(0, 3).Draw(rt, fmt.Sprintf("g%d_secret", i)))
		msgs = append(msgs, m)
		tts = append(tts, tt)
	}
	if rapid.IntRange(0, 5).Draw(rt, "noflight") == 5 {
		return msgs, nil
	}
	fl = &c11FlightSel{Reg: rapid.IntRange(0, 3).Draw(rt, "flreg")}
	// mostly the flight of the (first) message's transport, sometimes another one
	want := "prefix"
	switch tts[0] {
	case pb.TransportType_Min:
		want = "min"
	case pb.TransportType_Obfs4:
		want = "obfs4"
	}
	if rapid.IntRange(0, 5).Draw(rt, "otherflight") == 5 {
		want = rapid.SampledFrom([]string{"prefix", "min", "obfs4"}).Draw(rt, "flkind")
	}
	fl.Kind = want
	if want == "prefix" {
		fl.PrefixID = rapid.SampledFrom(aPrefixIDs).Draw(rt, "flprefix")
	}
	fl.Default = rapid.IntRange(0, 7).Draw(rt, "fldefault") == 7
	return msgs, fl
}

// ---- seeds and fuzz decoding -------------------------------------------------------------------

// c11RegSeedMsgs: registration messages of every odd-but-acceptable class (and a few that are
// refused), as seed corpus of the registration argument of the wrap / conn fuzz targets.
func c11RegSeedMsgs() [][]byte {
	var out [][]byte
	anyOf := func(m proto.Message, url string) *anypb.Any {
		a, err := anypb.New(m)
		if err != nil {
			panic(err)
		}
		if url != "keep" {
			a.TypeUrl = url
		}
		return a
	}
	i := 0
	add := func(tt pb.TransportType, libver uint32, gen uint32, params *anypb.Any, rr *pb.RegistrationResponse, v6 bool) {
		i++
		c2s := &pb.ClientToStation{ClientLibVersion: proto.Uint32(libver), DecoyListGeneration: proto.Uint32(gen), CovertAddress: proto.String(c11Covert),
			V4Support: proto.Bool(!v6), V6Support: proto.Bool(v6), Transport: tt.Enum(), TransportParams: params, Flags: &pb.RegistrationFlags{}}
		w := &pb.C2SWrapper{SharedSecret: aSecret(20 + i%4), RegistrationPayload: c2s, RegistrationSource: pb.RegistrationSource_API.Enum(),
			RegistrationAddress: []byte(net.IPv4(198, 51, 100, 7).To4()), RegistrationResponse: rr}
		b, err := proto.Marshal(w)
		if err != nil {
			panic(err)
		}
		out = append(out, b)
	}
	for _, tt := range []pb.TransportType{pb.TransportType_Prefix, pb.TransportType_Min, pb.TransportType_Obfs4} {
		for _, libver := range []uint32{4, 3, 2, 0} {
			for _, gen := range []uint32{1, 957} {
				add(tt, libver, gen, nil, nil, false)                         // no parameters, derived phantom
				add(tt, libver, gen, nil, c11PinnedResponse(false, 0), false) // no parameters, pinned phantom
			}
		}
		add(tt, 4, 1, nil, c11PinnedResponse(true, 0), true)
		add(tt, 4, 957, anyOf(&pb.GenericTransportParams{}, ""), c11PinnedResponse(false, 0), false)
		add(tt, 4, 957, anyOf(&pb.PrefixTransportParams{}, ""), c11PinnedResponse(false, 0), false)
		add(tt, 4, 1, anyOf(&pb.PrefixTransportParams{RandomizeDstPort: proto.Bool(true)}, "keep"), nil, false)
		add(tt, 4, 957, anyOf(&pb.PrefixTransportParams{PrefixId: proto.Int32(3)}, "keep"), c11PinnedResponse(false, 0), false)
		add(tt, 4, 957, anyOf(&pb.DTLSTransportParams{}, ""), c11PinnedResponse(false, 0), false)
		rr := c11PinnedResponse(false, 0)
		rr.TransportParams = anyOf(&pb.PrefixTransportParams{PrefixId: proto.Int32(5), Prefix: []byte("x")}, "keep")
		rr.DstPort = proto.Uint32(8443)
		add(tt, 4, 957, nil, rr, false)
		add(tt, 4, 957, &anypb.Any{}, c11PinnedResponse(false, 0), false)
	}
	add(pb.TransportType_DTLS, 4, 957, anyOf(&pb.DTLSTransportParams{SrcAddr4: &pb.Addr{IP: []byte{198, 51, 100, 7}, Port: proto.Uint32(40000)}}, "keep"), c11PinnedResponse(false, 0), false)
	return out
}

// c11FlightFromSel decodes the flight bits of the fuzz selector: 0 = the data alone, 1 = min,
// 2-11 = prefix with the n-th default prefix id, 12 = obfs4 (expensive: only from the seed corpus /
// when the fuzzer keeps the value), 13-15 = the data alone.
func c11FlightFromSel(sel uint16) *c11FlightSel {
	k := int(sel>>4) & 15
	fl := &c11FlightSel{Reg: int(sel>>8) & 3, Default: sel&(1<<10) != 0}
	switch {
	case k == 1:
		fl.Kind = "min"
	case k >= 2 && k <= 11:
		fl.Kind, fl.PrefixID = "prefix", aPrefixIDs[k-2]
	case k == 12:
		fl.Kind = "obfs4"
	default:
		return nil
	}
	return fl
}

// c11GenSeeds returns (data, regmsg, sel) seeds: every registration seed message x {the genuine
// flight of its transport under two prefix ids, a foreign flight, hostile bytes}.
func c11GenSeeds() [][]any {
	var out [][]any
	tail := []byte("GET / HTTP/1.1\r\n\r\n")
	for i, m := range c11RegSeedMsgs() {
		w := &pb.C2SWrapper{}
		if proto.Unmarshal(m, w) != nil {
			continue
		}
		var sels []uint16
		switch w.GetRegistrationPayload().GetTransport() {
		case pb.TransportType_Min:
			sels = []uint16{1 << 4, 2 << 4}
		case pb.TransportType_Obfs4:
			sels = []uint16{12 << 4}
		default:
			sels = []uint16{uint16(2+i%10) << 4, uint16(2+(i+3)%10) << 4, 1 << 4}
		}
		for _, s := range sels {
			out = append(out, []any{tail, m, s})
		}
		out = append(out, []any{[]byte{}, m, sels[0] | 1<<10}, []any{make([]byte, 70), m, uint16(0)})
	}
	return out
}
