package main

// C17 — client addresses never reach the station's logs unless logging them is enabled.
//
// Fault enumeration: connections with distinctive client addresses are driven through the real
// handler and relay over a scripted connection that injects, at every I/O call site, every error
// kind in the shape the net package produces for that operation (the text of a *net.OpError for
// read/write/close embeds both endpoints). Everything the station writes (per-connection logger on
// stdout, stderr, std log, the registration manager's logger, tunnel summaries) is captured and
// searched for the client address.

import (
	"runtime/debug"
	"strconv"
	"path/filepath"
	"os/exec"
	"encoding/json"
	"bytes"
	"fmt"
	"io"
	golog "log"
	"net"
	"os"
	"strings"
	"sync"
	"testing"
	"time"

	cj "github.com/refraction-networking/conjure/pkg/station/lib"
	"github.com/refraction-networking/conjure/pkg/station/log"
	pb "github.com/refraction-networking/conjure/proto"
	"pgregory.net/rapid"
	"verif/harness/vconn"
	"verif/harness/vh"
)

type c17Case struct {
	Addr     string `json:"addr"`     // v4 | v6 | v4mapped
	Scenario string `json:"scenario"` // see c17Scenarios
	Err      string `json:"err"`      // error kind injected
	Err2     string `json:"err2,omitempty"`
	Pos      int    `json:"pos"` // variant within the scenario (call index / data length)
	Shape    string `json:"shape,omitempty"` // form in which a wrapper around the connection reports failed operations (see c17Shapes); "" = the bare connection
}

var c17Scenarios = []string{
	"noreg-discard-read", "noreg-setdeadline", "nomatch-read-first", "nomatch-read-later", "ranout-discard-read",
	"found-upload-read", "found-upload-read-data+err", "found-download-write", "found-setdeadline", "found-close",
	"found-proxyheader", "found-covert-refused", "found-proxyheader-covert-reset",
}

// c17HookConn lets a scenario line something up with the RemoteAddr call Proxy makes between the
// covert dial and the PROXY header write.
type c17HookConn struct {
	*vconn.Conn
	hook func()
}

func (c c17HookConn) RemoteAddr() net.Addr {
	if c.hook != nil {
		c.hook()
	}
	return c.Conn.RemoteAddr()
}

type c17Capture struct {
	mu  sync.Mutex
	buf bytes.Buffer
}

func (c *c17Capture) Write(p []byte) (int, error) {
	c.mu.Lock()
	defer c.mu.Unlock()
	return c.buf.Write(p)
}
func (c *c17Capture) String() string {
	c.mu.Lock()
	defer c.mu.Unlock()
	return c.buf.String()
}
func (c *c17Capture) Reset() {
	c.mu.Lock()
	c.buf.Reset()
	c.mu.Unlock()
}

// c17Hook redirects every writer the station uses into one capture buffer.
type c17Hook struct {
	cap       *c17Capture
	oldOut    *os.File
	oldErr    *os.File
	w         *os.File
	done      chan struct{}
	oldLogOut io.Writer
}

func c17Install(e *aEnv) (*c17Hook, error) {
	h := &c17Hook{cap: &c17Capture{}, oldOut: os.Stdout, oldErr: os.Stderr, done: make(chan struct{})}
	r, w, err := os.Pipe()
	if err != nil {
		return nil, err
	}
	h.w = w
	os.Stdout = w
	os.Stderr = w
	h.oldLogOut = golog.Writer()
	golog.SetOutput(h.cap)
	log.SetOutput(h.cap)
	e.rm.Logger = log.New(h.cap, "[REG] ", golog.Ldate|golog.Lmicroseconds)
	sharedLogger = e.rm.Logger
	go func() {
		defer close(h.done)
		_, _ = io.Copy(h.cap, r)
	}()
	return h, nil
}

func (h *c17Hook) Uninstall() {
	os.Stdout = h.oldOut
	os.Stderr = h.oldErr
	golog.SetOutput(h.oldLogOut)
	log.SetOutput(h.oldLogOut)
	h.w.Close()
	<-h.done
}

// Collect returns everything written since the last Collect (waits for the pipe to drain).
func (h *c17Hook) Collect(marker string) (string, bool) {
	fmt.Fprintln(h.w, marker)
	deadline := time.Now().Add(10 * time.Second)
	for time.Now().Before(deadline) {
		s := h.cap.String()
		if strings.Contains(s, marker) {
			h.cap.Reset()
			return strings.Replace(s, marker, "", 1), true
		}
		time.Sleep(200 * time.Microsecond)
	}
	return h.cap.String(), false
}

func c17Addr(kind string) (remote string, ip net.IP, needles []string) {
	switch kind {
	case "v6":
		return "[2001:db8::c1e7:beef]:5555", net.ParseIP("2001:db8::c1e7:beef"), []string{"c1e7:beef", "c1e7beef", "C1E7:BEEF"}
	case "v4mapped":
		return "[::ffff:203.0.113.77]:5555", net.ParseIP("::ffff:203.0.113.77"), []string{"203.0.113.77", "cb00:714d"}
	}
	return "203.0.113.77:5555", net.ParseIP("203.0.113.77").To4(), []string{"203.0.113.77"}
}

type c17Out struct {
	key, msg string
	note     string
	classes  []string
	nontriv  bool
}

func c17Run(e *aEnv, h *c17Hook, c c17Case) c17Out {
	remote, _, needles := c17Addr(c.Addr)
	cj.VerifResetRegistry(e.rm)
	out := c17Out{classes: []string{"scenario:" + c.Scenario, "addr:" + c.Addr, "err:" + c.Err}}
	spec := aRegSpec{Secret: 1, TT: 0, Phantom: 0, Covert: e.cov.Addr()}
	found := strings.HasPrefix(c.Scenario, "found-")
	var reg *cj.DecoyRegistration
	if c.Scenario != "noreg-discard-read" && c.Scenario != "noreg-setdeadline" {
		if c.Scenario == "found-covert-refused" {
			spec.Covert = "127.0.0.1:1"
		}
		var err error
		reg, err = e.aMakeReg(spec)
		if err != nil {
			out.key, out.msg = "harness", err.Error()
			return out
		}
		if c.Scenario == "found-proxyheader" || c.Scenario == "found-proxyheader-covert-reset" {
			reg.Flags = &pb.RegistrationFlags{ProxyHeader: boolPtr(true)}
		}
		e.rm.AddRegistration(reg)
	}
	w, _ := e.aFlight(aSecret(1), pb.TransportType_Min, 0, 0)
	flight := aJoin(w)
	s := vconn.Script{Remote: remote, End: "hold"}
	reply := 0
	switch c.Scenario {
	case "noreg-discard-read":
		s.Reads = []vconn.Step{{Data: vh.Hex(aPayload(1, 10+c.Pos, "c17"))}, {Err: c.Err}}
	case "noreg-setdeadline":
		s.DeadlineFaults = map[int]string{0: c.Err}
		s.Reads = []vconn.Step{{Data: vh.Hex(aPayload(1, 10, "c17"))}, {Err: "eof"}}
	case "nomatch-read-first":
		s.Reads = []vconn.Step{{Err: c.Err}}
	case "nomatch-read-later":
		s.Reads = []vconn.Step{{Data: vh.Hex(aPayload(2, 40+c.Pos, "c17"))}, {Err: c.Err}}
	case "ranout-discard-read":
		s.Reads = []vconn.Step{{Data: vh.Hex(aPayload(3, 8200, "c17"))}, {Data: vh.Hex(aPayload(4, 10, "c17"))}, {Err: c.Err}}
	case "found-upload-read":
		s.Reads = []vconn.Step{{Data: vh.Hex(append(append([]byte(nil), flight...), aPayload(5, 100*c.Pos, "c17")...))}, {Err: c.Err}}
	case "found-upload-read-data+err":
		s.Reads = []vconn.Step{{Data: vh.Hex(flight)}, {Data: vh.Hex(aPayload(5, 50, "c17")), Err: c.Err}}
	case "found-download-write":
		reply = 100
		s.Reads = []vconn.Step{{Data: vh.Hex(flight)}, {WaitWritten: 10}}
		s.End = "eof"
		s.WriteFaults = map[int]vconn.Fault{0: {Accept: 10 * c.Pos, Err: c.Err}}
	case "found-setdeadline":
		s.Reads = []vconn.Step{{Data: vh.Hex(append(append([]byte(nil), flight...), aPayload(5, 20, "c17")...))}, {Err: "eof"}}
		s.DeadlineFaults = map[int]string{1 + c.Pos: c.Err}
	case "found-close":
		s.Reads = []vconn.Step{{Data: vh.Hex(append(append([]byte(nil), flight...), aPayload(5, 20, "c17")...))}, {Err: c.Err2}}
		s.CloseErr = c.Err
	case "found-proxyheader", "found-covert-refused", "found-proxyheader-covert-reset":
		s.Reads = []vconn.Step{{Data: vh.Hex(append(append([]byte(nil), flight...), aPayload(5, 20, "c17")...))}, {Err: c.Err}}
	}
	// is the injected error one whose text really carries the client address?
	op := "read"
	switch c.Scenario {
	case "noreg-setdeadline", "found-setdeadline":
		op = "set"
	case "found-download-write":
		op = "write"
	case "found-close":
		op = "close"
	}
	conn := vconn.New(s)
	conn.WaitLimit = 5 * time.Second
	if ierr := c17ShapeErr(c.Shape, vconn.MkErr(c.Err, op, conn.LocalAddr(), conn.RemoteAddr())); ierr != nil {
		for _, n := range needles {
			if strings.Contains(ierr.Error(), n) {
				out.nontriv = true
				out.classes = append(out.classes, "error-text-carries-client-address")
				if c17ShapeMulti(c.Shape) && !c17Anticipated(c.Err) {
					out.classes = append(out.classes, "several-causes+unanticipated+carries-address")
				}
				break
			}
		}
	}
	e.cov.Arm(0, aPayload(9, reply, "c17reply"))
	var hconn net.Conn = conn
	if c.Shape != "" {
		out.classes = append(out.classes, "shape:"+c.Shape)
		hconn = c17ShapeConn{Conn: conn, shape: c.Shape}
	}
	if c.Scenario == "found-proxyheader-covert-reset" {
		// the covert resets the connection at once; hold the RemoteAddr call Proxy makes between the
		// dial and the header write until that has happened, so that the header write fails
		e.cov.ArmReset(true)
		defer e.cov.ArmReset(false)
		calls := 0
		var hooked net.Conn = c17HookConn{Conn: conn, hook: func() {
			calls++
			if calls < 2 { // the handler's own early look at the address
				return
			}
			deadline := time.Now().Add(300 * time.Millisecond)
			for time.Now().Before(deadline) && e.cov.Resets() == 0 {
				time.Sleep(200 * time.Microsecond)
			}
			time.Sleep(3 * time.Millisecond) // let the RST arrive
		}}
		hconn = hooked
		if c.Shape != "" {
			hconn = c17ShapeConn{Conn: hooked, shape: c.Shape}
		}
	}
	ok, pan := c17RunHandler(e, hconn, aPhantom(0, false), 40*time.Second)
	if found && c.Scenario != "found-covert-refused" && c.Scenario != "found-proxyheader-covert-reset" {
		// the relay closes the source side asynchronously
		conn.WaitClosed(5 * time.Second)
	}
	// the periodic statistics reporters write through the same loggers
	func() {
		defer func() { _ = recover() }() // housekeeping panics are C19's business
		e.cm.PrintAndReset(e.rm.Logger)
		cj.GetProxyStats().PrintAndReset(e.rm.Logger)
		e.rm.PrintAndReset(e.rm.Logger)
	}()
	logs, drained := h.Collect(fmt.Sprintf("@@verif-c17-marker-%p@@", conn))
	if pan != nil {
		// A panic of the handler is not what C17 is about (C11 / C09 forbid panics): it is a violation
		// here only if what a crash would print - the panic value - carries the client's address.
		// Otherwise it is kept as a note with its stack and the case is not judged.
		txt := fmt.Sprint(pan)
		for _, n := range needles {
			if strings.Contains(txt, n) {
				out.key, out.msg = "leak:panic-text", fmt.Sprintf("handler panicked and the panic text contains the client address (%q): %.300s", n, txt)
				return out
			}
		}
		out.classes = append(out.classes, "handler-panicked:outside-this-property")
		out.note = fmt.Sprintf("handler panicked (not judged by C17): %.3000s", txt)
		return out
	}
	if !ok || !drained {
		out.key, out.msg = "harness", fmt.Sprintf("handler returned=%v, log pipe drained=%v", ok, drained)
		return out
	}
	if found && reg != nil {
		if n := cj.VerifTunnelCount(reg); n != 1 {
			out.key, out.msg = "harness", fmt.Sprintf("scenario %s expected the flight to be recognised (tunnel count %d)", c.Scenario, n)
			return out
		}
	}
	for _, n := range needles {
		if i := strings.Index(logs, n); i >= 0 {
			lo := strings.LastIndex(logs[:i], "\n") + 1
			hi := strings.Index(logs[i:], "\n")
			line := logs[lo:]
			if hi >= 0 {
				line = logs[lo : i+hi]
			}
			site := "handler"
			if strings.Contains(line, "proxy closed") {
				site = "tunnel-summary"
			}
			kind := "unanticipated-errno"
			if strings.HasPrefix(c.Scenario, "found-setdeadline") || c.Scenario == "noreg-setdeadline" {
				kind = "setdeadline"
			}
			if c17ShapeMulti(c.Shape) {
				kind += ":error-with-several-causes"
			} else if c.Shape != "" {
				kind += ":wrapped-error"
			}
			out.key = fmt.Sprintf("leak:%s:%s", site, kind)
			out.msg = fmt.Sprintf("client address appears in the station's output at the default log level: %q", strings.TrimSpace(line))
			return out
		}
	}
	if logs != "" {
		out.classes = append(out.classes, "something-was-logged")
	}
	return out
}

// c17RunHandler runs the connection handler like aRunHandler does, and keeps the stack of a panic.
func c17RunHandler(e *aEnv, conn net.Conn, phantom net.IP, limit time.Duration) (ok bool, panicked any) {
	done := make(chan any, 1)
	go func() {
		defer func() {
			if p := recover(); p != nil {
				done <- fmt.Sprintf("%v\n%s", p, debug.Stack())
				return
			}
			done <- nil
		}()
		e.cm.handleNewTCPConn(e.rm, conn, phantom)
	}()
	select {
	case p := <-done:
		return true, p
	case <-time.After(limit):
		return false, nil
	}
}

func boolPtr(b bool) *bool { return &b }

func c17Env(t *testing.T) (*aEnv, *c17Hook) {
	logClientIP = false
	log.SetLevel(log.ErrorLevel)
	e := aNewEnv(t)
	e.cov = aNewCovert(t)
	t.Cleanup(e.cov.Close)
	h, err := c17Install(e)
	if err != nil {
		t.Fatalf("harness problem: %v", err)
	}
	t.Cleanup(h.Uninstall)
	return e, h
}

func c17Check(t vh.Fataler, rec *vh.Rec, e *aEnv, h *c17Hook, c c17Case) {
	t0 := time.Now()
	o := c17Run(e, h, c)
	rec.ClassN("ms:"+c.Scenario, time.Since(t0).Milliseconds())
	rec.Case(o.nontriv, vh.Digest(c), c, o.classes...)
	if o.note != "" {
		rec.Note("%s [scenario %s, error kind %s, client %s]", o.note, c.Scenario, c.Err, c.Addr)
	}
	if o.key == "harness" {
		t.Fatalf("harness problem: %s (case %+v)", o.msg, c)
	}
	if o.key != "" {
		rec.Violation(t, o.key, c, "%s [scenario %s, error kind %s, client %s]", o.msg, c.Scenario, c.Err, c.Addr)
	}
}

var c17ErrKinds = []string{"eof", "unexpected-eof", "reset", "epipe", "refused", "aborted", "ehostunreach", "enetunreach",
	"enotconn", "enobufs", "einval", "eio", "enetdown", "enomem", "ebadf", "etimedout", "timeout", "closed",
	"wrapped-reset", "wrapped-enetunreach"}

// Every scenario x error kind x address form, one fault each.
func TestVerif_C17_enum(t *testing.T) {
	rec := vh.NewRec("C17", "enum", "exhaustive: {IPv4, IPv6, v4-mapped client} x 12 call-site scenarios of classification and relay x 20 error kinds (anticipated and unanticipated errnos, time-outs, EOF, wrapped OpErrors in the shape net produces for that operation) x 1-3 positions; non-trivial = the injected error's text really contains the client address; distinct by case")
	defer rec.Flush()
	rec.Require("error-text-carries-client-address", "something-was-logged", "scenario:found-upload-read", "scenario:found-download-write", "scenario:ranout-discard-read")
	e, h := c17Env(t)
	if p := vh.ReplayFile(); p != "" {
		var c c17Case
		if _, _, err := vh.LoadReplay(p, &c); err != nil {
			t.Fatal(err)
		}
		c17Check(t, rec, e, h, c)
		return
	}
	rec.SetExhaustive(true)
	idx := 0
	for _, addr := range []string{"v4", "v6", "v4mapped"} {
		for _, sc := range c17Scenarios {
			npos := 1
			switch sc {
			case "found-upload-read", "found-download-write":
				npos = 3
			case "found-setdeadline":
				npos = 4
			}
			for _, k := range c17ErrKinds {
				for pos := 0; pos < npos; pos++ {
					idx++
					if !vh.Mine(idx) {
						continue
					}
					c := c17Case{Addr: addr, Scenario: sc, Err: k, Pos: pos, Err2: "eof"}
					c17Check(t, rec, e, h, c)
				}
			}
		}
	}
}

// Every errno the kernel can hand back, at every call site: the station's error handling names a
// handful of errnos explicitly; whatever it does for the others (and for any it singles out later)
// must not print the endpoints the net package puts into the error text.
func TestVerif_C17_errnos(t *testing.T) {
	rec := vh.NewRec("C17", "errnos", "exhaustive: {IPv4, IPv6 client} x 12 call-site scenarios x every errno 1..133 (as *net.OpError in the shape net produces for that operation), first position; same oracle as 'enum'; non-trivial = the injected error's text really contains the client address; distinct by case")
	defer rec.Flush()
	rec.Require("error-text-carries-client-address", "something-was-logged")
	e, h := c17Env(t)
	if p := vh.ReplayFile(); p != "" {
		var c c17Case
		if _, _, err := vh.LoadReplay(p, &c); err != nil {
			t.Fatal(err)
		}
		c17Check(t, rec, e, h, c)
		return
	}
	rec.SetExhaustive(true)
	idx := 0
	addrs := []string{"v4", "v6"}
	for n := 1; n <= 133; n++ {
		for _, sc := range c17Scenarios {
			for ai, addr := range addrs {
				idx++
				if !vh.Mine(idx) {
					continue
				}
				if !vh.Thorough() && (n+ai)%2 == 1 && n > 40 {
					// quick tier: above errno 40 each (errno, scenario) pair runs for one family only
					continue
				}
				c17Check(t, rec, e, h, c17Case{Addr: addr, Scenario: sc, Err: fmt.Sprintf("errno:%d", n), Pos: 0, Err2: "eof"})
			}
		}
	}
}

// handleNewConn on a real TCP connection whose descriptor cannot be obtained.
func TestVerif_C17_newconn(t *testing.T) {
	rec := vh.NewRec("C17", "newconn", "real loopback TCP connections handed to handleNewConn after the descriptor became unusable (closed): the only fault that can be injected into a *net.TCPConn offline; non-trivial = the File() error text contains the client's ip:port; distinct by client port")
	defer rec.Flush()
	e, h := c17Env(t)
	ln, err := net.Listen("tcp", "127.0.0.1:0")
	if err != nil {
		t.Fatalf("harness problem: %v", err)
	}
	defer ln.Close()
	n := 3
	for i := 0; i < n; i++ {
		cli, err := net.Dial("tcp", ln.Addr().String())
		if err != nil {
			t.Fatalf("harness problem: %v", err)
		}
		srv, err := ln.Accept()
		if err != nil {
			t.Fatalf("harness problem: %v", err)
		}
		needle := cli.LocalAddr().String() // client's ip:port as seen by the station
		srv.Close()
		_, ferr := srv.(*net.TCPConn).File()
		nontriv := ferr != nil && strings.Contains(ferr.Error(), needle)
		e.cm.handleNewConn(e.rm, srv.(*net.TCPConn))
		cli.Close()
		logs, drained := h.Collect(fmt.Sprintf("@@verif-c17-newconn-%d@@", i))
		if !drained {
			t.Fatalf("harness problem: log pipe not drained")
		}
		c := map[string]any{"client": needle, "fault": "descriptor unusable (closed)"}
		rec.Case(nontriv, vh.Digest(needle), c, "scenario:newconn-file-error")
		if strings.Contains(logs, needle) {
			rec.Violation(t, "leak:newconn:file-error", c, "client address appears in the station's output at the default log level: %q", strings.TrimSpace(logs))
		}
	}
	// A live connection from a distinctive client address (127.0.0.2) that was not redirected by DNAT
	// (so the original-destination lookup fails or yields the listener's own address), then reset by
	// the client: whatever path the handler takes, the client address must not be logged.
	for i := 0; i < n; i++ {
		d := net.Dialer{LocalAddr: &net.TCPAddr{IP: net.IPv4(127, 0, 0, 2)}, Timeout: 5 * time.Second}
		cli, err := d.Dial("tcp", ln.Addr().String())
		if err != nil {
			t.Fatalf("harness problem: %v", err)
		}
		srv, err := ln.Accept()
		if err != nil {
			t.Fatalf("harness problem: %v", err)
		}
		done := make(chan struct{})
		go func() {
			defer close(done)
			e.cm.handleNewConn(e.rm, srv.(*net.TCPConn))
		}()
		_, _ = cli.Write([]byte("probe"))
		time.Sleep(5 * time.Millisecond)
		_ = cli.(*net.TCPConn).SetLinger(0)
		cli.Close() // RST
		select {
		case <-done:
		case <-time.After(15 * time.Second):
			t.Fatalf("harness problem: handleNewConn did not return after the client reset the connection")
		}
		logs, drained := h.Collect(fmt.Sprintf("@@verif-c17-newconn-live-%d@@", i))
		if !drained {
			t.Fatalf("harness problem: log pipe not drained")
		}
		c := map[string]any{"client": "127.0.0.2", "fault": "connection not redirected (original destination unavailable), then reset by the client", "i": i}
		rec.Case(true, vh.Digest(fmt.Sprintf("live-%d", i)), c, "scenario:newconn-no-original-dst")
		if strings.Contains(logs, "127.0.0.2") {
			rec.Violation(t, "leak:newconn:no-original-dst", c, "client address appears in the station's output at the default log level: %q", strings.TrimSpace(logs))
		}
	}
}

// Random pairs of faults (two call sites in one connection).
func TestVerif_C17_pairs(t *testing.T) {
	rec := vh.NewRec("C17", "pairs", "rapid-drawn connections in which the flight is recognised and two faults are injected (read/data+error on the client side, write fault on the download side, deadline fault, close error), drawn address form; non-trivial = an injected error text contains the client address; distinct by case")
	defer rec.Flush()
	e, h := c17Env(t)
	if vh.ReplayFile() != "" {
		t.Skip("pairs replays through the enum sub-check format")
	}
	rapid.Check(t, func(rt *rapid.T) {
		c := c17Case{
			Addr:     rapid.SampledFrom([]string{"v4", "v6", "v4mapped"}).Draw(rt, "addr"),
			Scenario: "found-close",
			Err:      rapid.SampledFrom(c17ErrKinds).Draw(rt, "closeerr"),
			Err2:     rapid.SampledFrom(c17ErrKinds).Draw(rt, "readerr"),
		}
		c17Check(rt, rec, e, h, c)
	})
}

// The switch itself: the station is started with LOG_CLIENT_IP unset or set to something that does
// not switch client-address logging on (a Go boolean that is false, or a value that is no boolean at
// all - the station treats that as "off"). Each spelling runs in a re-executed child of the test
// binary, so that whatever the package does with the environment when it is initialised is in effect.
var c17OffSpellings = []string{"<unset>", "", "false", "0", "f", "F", "FALSE", "False", "no", "off", "OFF", "n", "N", "none", "disabled", "disable", "false;", "\"false\"", "'0'", "nope", "-", "null", "nil", "falsch", "0 ", " false", "fals", "00", "2", "-1", "no!"}

type c17EnvChildOut struct {
	Ran   int      `json:"ran"`
	Leaks []string `json:"leaks"`
	Flag  bool     `json:"flag"`
}

func TestVerif_C17_envchild(t *testing.T) {
	out := os.Getenv("VERIF_C17_ENVOUT")
	if out == "" {
		return // only meaningful as a child of TestVerif_C17_envflag
	}
	res := c17EnvChildOut{Flag: logClientIP}
	log.SetLevel(log.ErrorLevel)
	e := aNewEnv(t)
	e.cov = aNewCovert(t)
	defer e.cov.Close()
	h, err := c17Install(e) // NOTE: unlike c17Env this does not touch logClientIP
	if err != nil {
		t.Fatalf("harness problem: %v", err)
	}
	for _, addr := range []string{"v4", "v6"} {
		for _, sc := range []string{"nomatch-read-later", "found-upload-read", "ranout-discard-read"} {
			o := c17Run(e, h, c17Case{Addr: addr, Scenario: sc, Err: "reset", Pos: 0, Err2: "eof"})
			res.Ran++
			if o.key != "" && o.key != "harness" {
				res.Leaks = append(res.Leaks, fmt.Sprintf("[%s %s] %s", addr, sc, o.msg))
			}
		}
	}
	h.Uninstall()
	b, _ := json.Marshal(res)
	if err := os.WriteFile(out, b, 0o644); err != nil {
		t.Fatalf("harness problem: %v", err)
	}
}

func TestVerif_C17_envflag(t *testing.T) {
	rec := vh.NewRec("C17", "envflag", "exhaustive over 31 spellings of LOG_CLIENT_IP that do not switch client-address logging on (unset, empty, Go booleans that are false, values that are no boolean at all), each in a re-executed child process of the test binary that then handles IPv4 and IPv6 connections ending in a reset on three paths; oracle: no output line contains the client address; non-trivial = a spelling that is not a Go boolean; distinct by spelling")
	defer rec.Flush()
	if vh.ReplayFile() != "" && !strings.Contains(vh.ReplayFile(), "envflag") {
		t.Skip("replay file belongs to another sub-check")
	}
	run := func(sp string) {
		outFile := filepath.Join(t.TempDir(), "out.json")
		cmd := exec.Command(os.Args[0], "-test.run", "^TestVerif_C17_envchild$", "-test.count=1")
		env := []string{}
		for _, kv := range os.Environ() {
			if strings.HasPrefix(kv, "LOG_CLIENT_IP=") || strings.HasPrefix(kv, "VERIF_OUT=") || strings.HasPrefix(kv, "VERIF_REPLAY=") {
				continue
			}
			env = append(env, kv)
		}
		env = append(env, "VERIF_C17_ENVOUT="+outFile)
		if sp != "<unset>" {
			env = append(env, "LOG_CLIENT_IP="+sp)
		}
		cmd.Env = env
		var buf bytes.Buffer
		cmd.Stdout, cmd.Stderr = &buf, &buf
		done := make(chan error, 1)
		if err := cmd.Start(); err != nil {
			t.Fatalf("harness problem: %v", err)
		}
		go func() { done <- cmd.Wait() }()
		select {
		case err := <-done:
			if err != nil {
				t.Fatalf("harness problem: child for LOG_CLIENT_IP=%q failed: %v\n%s", sp, err, buf.String())
			}
		case <-time.After(120 * time.Second):
			_ = cmd.Process.Kill()
			t.Fatalf("harness problem: child for LOG_CLIENT_IP=%q did not finish within 120 s", sp)
		}
		b, err := os.ReadFile(outFile)
		var res c17EnvChildOut
		if err != nil || json.Unmarshal(b, &res) != nil || res.Ran == 0 {
			t.Fatalf("harness problem: child for LOG_CLIENT_IP=%q left no result (%v)\n%s", sp, err, buf.String())
		}
		_, perr := strconv.ParseBool(sp)
		c := map[string]any{"LOG_CLIENT_IP": sp}
		rec.Case(perr != nil && sp != "<unset>" && sp != "", vh.Digest(sp), c, "spelling")
		if len(res.Leaks) > 0 {
			rec.Violation(t, "leak:logging-switched-on-by-off-value", c, "started with LOG_CLIENT_IP=%q (not a value that switches client-address logging on) the station logs client addresses: %s", sp, res.Leaks[0])
		}
	}
	if p := vh.ReplayFile(); p != "" {
		var c map[string]string
		if _, _, err := vh.LoadReplay(p, &c); err != nil {
			t.Fatal(err)
		}
		run(c["LOG_CLIENT_IP"])
		return
	}
	rec.SetExhaustive(true)
	for i, sp := range c17OffSpellings {
		if vh.Mine(i) {
			run(sp)
		}
	}
}
