package main

// C17 (error shapes) — the connection the handler and the relay work on is rarely the bare socket: it
// is a transport's wrapper, and a wrapper reports a failed operation in its own form - the socket's
// *net.OpError wrapped once or several times, or TOGETHER with the wrapper's own state as an error
// with several causes (fmt.Errorf with two %w, errors.Join, an error type with Unwrap() []error, and
// such errors wrapped again). Whatever the form, the operation error inside it carries both
// endpoints in its text, and none of that may reach the logs or the tunnel summary.
//
// The sub-check runs the scenarios of 'enum' with the scripted connection inside such a wrapper.
// Only forms in which the operation error is still a cause of the reported error (reachable through
// Unwrap() error / Unwrap() []error) are generated: an error that arrives as bare text is not an
// error "the network stack returns".

import (
	"errors"
	"fmt"
	"io"
	"net"
	"strings"
	"testing"
	"time"

	"verif/harness/vh"
)

var errC17WrapperState = errors.New("transport: incomplete frame pending")
var errC17WrapperState2 = errors.New("transport: session torn down")

// c17MultiErr is an error type of a wrapper's own with several causes.
type c17MultiErr struct{ errs []error }

func (m c17MultiErr) Error() string {
	var parts []string
	for _, e := range m.errs {
		parts = append(parts, e.Error())
	}
	return "transport failed [" + strings.Join(parts, "; ") + "]"
}
func (m c17MultiErr) Unwrap() []error { return m.errs }

// c17SingleErr is an error type of a wrapper's own with one cause.
type c17SingleErr struct {
	op  string
	err error
}

func (s c17SingleErr) Error() string { return "transport " + s.op + ": " + s.err.Error() }
func (s c17SingleErr) Unwrap() error { return s.err }

// c17Shapes: the forms in which a wrapper reports the operation error `op`. multi = the reported
// error has (somewhere) a link with several causes.
var c17Shapes = []struct {
	name  string
	multi bool
	mk    func(op error) error
}{
	{"wrap", false, func(op error) error { return fmt.Errorf("transport read: %w", op) }},
	{"wrap(wrap)", false, func(op error) error { return fmt.Errorf("relay: %w", fmt.Errorf("transport read: %w", op)) }},
	{"type(wrap)", false, func(op error) error { return c17SingleErr{"io", fmt.Errorf("frame: %w", op)} }},
	{"two-w:op-first", true, func(op error) error { return fmt.Errorf("%w (%w)", op, errC17WrapperState) }},
	{"two-w:op-last", true, func(op error) error { return fmt.Errorf("%w: %w", errC17WrapperState, op) }},
	{"join:op-first", true, func(op error) error { return errors.Join(op, errC17WrapperState) }},
	{"join:op-last", true, func(op error) error { return errors.Join(errC17WrapperState, op) }},
	{"join:op-middle", true, func(op error) error { return errors.Join(errC17WrapperState, op, errC17WrapperState2) }},
	{"wrap(join)", true, func(op error) error {
		return fmt.Errorf("transport read: %w", errors.Join(errC17WrapperState, op))
	}},
	{"join(wrap)", true, func(op error) error {
		return errors.Join(errC17WrapperState, fmt.Errorf("transport read: %w", op))
	}},
	{"join(join)", true, func(op error) error {
		return errors.Join(errC17WrapperState, errors.Join(errC17WrapperState2, op))
	}},
	{"multi-type", true, func(op error) error { return c17MultiErr{[]error{errC17WrapperState, op}} }},
	{"type(multi-type)", true, func(op error) error {
		return c17SingleErr{"io", c17MultiErr{[]error{op, errC17WrapperState}}}
	}},
}

func c17ShapeErr(shape string, err error) error {
	if err == nil || err == io.EOF || shape == "" {
		return err // a wrapper hands end-of-stream through as it is
	}
	for _, s := range c17Shapes {
		if s.name == shape {
			return s.mk(err)
		}
	}
	return err
}

func c17ShapeMulti(shape string) bool {
	for _, s := range c17Shapes {
		if s.name == shape {
			return s.multi
		}
	}
	return false
}

// c17ShapeConn is the wrapper: every failed operation of the connection inside is reported in the
// wrapper's form.
type c17ShapeConn struct {
	net.Conn
	shape string
}

func (c c17ShapeConn) Read(p []byte) (int, error) {
	n, err := c.Conn.Read(p)
	return n, c17ShapeErr(c.shape, err)
}
func (c c17ShapeConn) Write(p []byte) (int, error) {
	n, err := c.Conn.Write(p)
	return n, c17ShapeErr(c.shape, err)
}
func (c c17ShapeConn) Close() error { return c17ShapeErr(c.shape, c.Conn.Close()) }
func (c c17ShapeConn) SetDeadline(t time.Time) error {
	return c17ShapeErr(c.shape, c.Conn.SetDeadline(t))
}
func (c c17ShapeConn) SetReadDeadline(t time.Time) error {
	return c17ShapeErr(c.shape, c.Conn.SetReadDeadline(t))
}
func (c c17ShapeConn) SetWriteDeadline(t time.Time) error {
	return c17ShapeErr(c.shape, c.Conn.SetWriteDeadline(t))
}

// error kinds whose text carries the endpoints: errnos the station's error handling does not name,
// two it names, and the two kinds of time-out
var c17ShapeKindsQuick = []string{"enobufs", "eio", "errno:1", "enetdown", "reset", "timeout", "etimedout"}

func c17Anticipated(kind string) bool {
	switch kind {
	case "reset", "epipe", "refused", "aborted", "ehostunreach", "timeout", "closed", "eof", "wrapped-reset":
		return true
	}
	return false
}

func TestVerif_C17_shapes(t *testing.T) {
	rec := vh.NewRec("C17", "shapes", fmt.Sprintf("exhaustive: {IPv4, IPv6 (thorough: + v4-mapped) client} x the 13 call-site scenarios of 'enum' x %d forms in which a connection wrapper reports the failed operation (the *net.OpError wrapped once / twice / by an error type; with a second cause through two %%w, errors.Join at either end or in the middle, an error type with Unwrap() []error; such errors wrapped or joined again) x error kinds (errnos the error handling does not name, two it names, both kinds of time-out; thorough: every kind of 'enum'); same oracle as 'enum'; non-trivial = the reported error's text really contains the client address; distinct by case", len(c17Shapes)))
	defer rec.Flush()
	rec.Require("error-text-carries-client-address", "something-was-logged", "several-causes+unanticipated+carries-address",
		"shape:two-w:op-last", "shape:join:op-last", "shape:wrap(join)", "shape:multi-type", "scenario:found-upload-read", "scenario:found-download-write", "scenario:found-close", "scenario:nomatch-read-later")
	if vh.ReplayFile() != "" && !strings.Contains(vh.ReplayFile(), "shapes") {
		t.Skip("replay file belongs to another sub-check")
	}
	e, h := c17Env(t)
	check := func(c c17Case) { c17Check(t, rec, e, h, c) }
	if p := vh.ReplayFile(); p != "" {
		var c c17Case
		if _, _, err := vh.LoadReplay(p, &c); err != nil {
			t.Fatal(err)
		}
		check(c)
		return
	}
	rec.SetExhaustive(true)
	addrs := []string{"v4", "v6"}
	kinds := c17ShapeKindsQuick
	if vh.Thorough() {
		addrs = []string{"v4", "v6", "v4mapped"}
		kinds = nil
		for _, k := range c17ErrKinds {
			if k != "eof" {
				kinds = append(kinds, k)
			}
		}
		kinds = append(kinds, "errno:1", "errno:5")
	}
	idx := 0
	for _, addr := range addrs {
		for _, sc := range c17Scenarios {
			for _, sh := range c17Shapes {
				for _, k := range kinds {
					idx++
					if !vh.Mine(idx) {
						continue
					}
					pos := 0
					if sc == "found-setdeadline" {
						pos = idx % 4
					} else if sc == "found-upload-read" || sc == "found-download-write" {
						pos = idx % 3
					}
					check(c17Case{Addr: addr, Scenario: sc, Err: k, Pos: pos, Err2: "eof", Shape: sh.name})
				}
			}
		}
	}
}
