package main

// C04 — valid client flights are recognised under any TCP segmentation, data intact.
//
// A genuine first flight (made by the real client transport) plus early application data is fed
// to the real handleNewTCPConn in chosen segments; the registration's covert is a real loopback
// recorder. Oracle: covert receives exactly the application bytes (once, in order), the client
// receives exactly the covert's reply, the client's registration is the one marked used, the
// classification deadline was cleared before relaying, and the handler returns after the client
// closes.

import (
	"bytes"
	"crypto/hmac"
	"crypto/sha256"
	"encoding/binary"
	"fmt"
	"io"
	"net"
	"sort"
	"strconv"
	"testing"
	"time"

	"github.com/refraction-networking/obfs4/common/ntor"
	"golang.org/x/crypto/curve25519"

	"github.com/refraction-networking/conjure/pkg/core"
	cj "github.com/refraction-networking/conjure/pkg/station/lib"
	"github.com/refraction-networking/conjure/pkg/transports/wrapping/obfs4"
	pb "github.com/refraction-networking/conjure/proto"
	"google.golang.org/protobuf/proto"
	"google.golang.org/protobuf/types/known/anypb"
	"pgregory.net/rapid"
	"verif/harness/vconn"
	"verif/harness/vh"
)

type c04Case struct {
	Reg     aRegSpec   `json:"reg"`     // the client's registration (phantom 0)
	Flush   int32      `json:"flush"`   // prefix flush policy (0 default, 1 none, 2 after prefix)
	Others  []aRegSpec `json:"others"`  // other registrations present
	Early   int        `json:"early"`   // application bytes the client sends right behind the flight
	Reply   int        `json:"reply"`   // bytes the covert answers
	Cuts    []int      `json:"cuts"`    // segment boundaries (offsets into flight+early data), ascending
	Pauses  []int64    `json:"pauses"`  // virtual pause before each segment (ms), optional
	DataKey int        `json:"datakey"` // selects the payload pattern
	Key     int        `json:"key,omitempty"` // which of the station's keys the client was built with (prefix tags are encrypted to it)
	Again   int        `json:"again,omitempty"` // how many more connections the same client makes on the same registration afterwards
	Strays  int        `json:"strays,omitempty"` // connections of other peers handled on the same phantom just before: they send StrayLen bytes of junk and hang up
	StrayLen int       `json:"stray_len,omitempty"`
	Dst16   bool       `json:"dst16,omitempty"` // the original destination is handed over in the 16-byte form of an IPv4 address (what the production listener builds), not the 4-byte form the registration holds
	SlowMs  int        `json:"slow_ms,omitempty"` // the covert starts reading only after this many milliseconds (the client has long sent everything and closed)
}

type c04Result struct {
	key, msg string
	classes  []string
	nontriv  bool
	waited   bool // a real-time harness wait hit its limit
}

func c04Run(e *aEnv, c c04Case, waitLimit time.Duration) (res c04Result) {
	cls := map[string]bool{}
	cj.VerifResetRegistry(e.rm)
	e.ClearAnns()
	c.Reg.Phantom = 0
	c.Reg.Covert = e.cov.Addr()
	reg, err := e.aMakeReg(c.Reg)
	if err != nil {
		return c04Result{key: "harness", msg: fmt.Sprintf("make reg: %v", err)}
	}
	for _, o := range c.Others {
		if o.Secret == c.Reg.Secret {
			continue // a second registration of the same secret is C02/C08 material
		}
		o.Covert = "127.0.0.1:1" // must never be dialled
		or, err := e.aMakeReg(o)
		if err != nil {
			return c04Result{key: "harness", msg: fmt.Sprintf("make other reg: %v", err)}
		}
		e.rm.AddRegistration(or)
	}
	e.rm.AddRegistration(reg)
	// other peers' connections on the same phantom, handled just before the client's
	for i := 0; i < c.Strays; i++ {
		junk := aPayload(c.DataKey+i, c.StrayLen, "stray")
		sc := vconn.New(vconn.Script{Reads: []vconn.Step{{Data: vh.Hex(junk)}}, End: "eof", Remote: "203.0.113.99:4444"})
		if ok, pan, _ := e.aRunHandler(sc, c04Dst(c), 30*time.Second); pan != nil || !ok {
			return c04Result{key: "harness", msg: fmt.Sprintf("stray connection %d: returned=%v panic=%v", i, ok, pan)}
		}
		cls["after-stray-connections"] = true
	}
	// the same client may connect again on the same registration (it stays usable for 6 hours
	// once it has carried a connection): every connection is judged like the first
	for round := 0; ; round++ {
		res = c04Once(e, c, reg, cls, waitLimit, round)
		if res.key != "" && round > 0 {
			res.msg = fmt.Sprintf("connection #%d of the same client on the same registration: %s", round+1, res.msg)
		}
		if res.key != "" || round >= c.Again {
			break
		}
	}
	if c.Again > 0 {
		res.classes = append(res.classes, "reconnects")
	}
	return res
}

func c04Once(e *aEnv, c c04Case, reg *cj.DecoyRegistration, cls map[string]bool, waitLimit time.Duration, round int) (res c04Result) {
	e.ClearAnns()
	c.DataKey += round * 7919

	writes, err := e.aFlightKey(aSecret(c.Reg.Secret), aTT[c.Reg.TT], c.Reg.PrefixID, c.Flush, c.Key)
	if err != nil {
		return c04Result{key: "harness", msg: fmt.Sprintf("flight: %v", err)}
	}
	if c.Key == 1 && c.Reg.TT == 1 {
		cls["second-station-key"] = true
	}
	flight := aJoin(writes)
	app := aPayload(c.DataKey, c.Early, "up")
	reply := aPayload(c.DataKey, c.Reply, "down")
	stream := append(append([]byte(nil), flight...), app...)

	// segments
	var steps []vconn.Step
	prev := 0
	tagStart := len(flight) - 64
	if c.Reg.TT == 0 {
		tagStart = 0
	}
	for i, cut := range append(append([]int(nil), c.Cuts...), len(stream)) {
		if cut <= prev || cut > len(stream) {
			continue
		}
		st := vconn.Step{Data: vh.Hex(stream[prev:cut])}
		if i < len(c.Pauses) {
			st.PauseMs = c.Pauses[i]
		}
		steps = append(steps, st)
		if cut < len(stream) {
			switch {
			case cut > tagStart && cut < len(flight):
				cls["cut-inside-tag"] = true
			case cut == tagStart && tagStart > 0:
				cls["cut-between-prefix-and-tag"] = true
			case cut < tagStart:
				cls["cut-inside-prefix"] = true
			case cut == len(flight):
				cls["cut-after-tag"] = true
			case cut > len(flight):
				cls["cut-inside-early-data"] = true
			}
		}
		prev = cut
	}
	if len(app) > 0 && (len(steps) == 0 || len(steps[0].Data) > len(flight) || cls["cut-inside-tag"] || cls["cut-inside-prefix"] || cls["cut-between-prefix-and-tag"] || cls["cut-inside-early-data"]) {
		cls["early-data-with-tag-segment"] = true
	}
	if len(stream) == 0 {
		return c04Result{key: "harness", msg: "empty stream"}
	}
	if len(reply) > 0 {
		steps = append(steps, vconn.Step{WaitWritten: len(reply)})
	}
	script := vconn.Script{Reads: steps, End: "eof", Remote: "203.0.113.77:5555"}
	conn := vconn.New(script)
	conn.WaitLimit = waitLimit
	e.cov.Arm(len(app), reply)
	e.cov.SetReadDelay(time.Duration(c.SlowMs) * time.Millisecond)
	defer e.cov.SetReadDelay(0)
	if c.SlowMs > 0 {
		cls["covert-reads-late"] = true
		if len(app) >= 200000 {
			cls["large-upload-to-late-covert"] = true
		}
	}
	// mid-session observation: when the covert has received the client's data the tunnel is open and
	// the registration is carrying a connection, so it must already be marked used (its lifetime
	// is extended from that moment, not from the end of the session)
	usedMidSession, midSeen := false, false
	e.cov.SetOnReply(func() {
		_, _, usedMidSession = cj.VerifRegState(e.rm, reg)
		midSeen = true
	})
	defer e.cov.SetOnReply(nil)
	if c.Dst16 && !c.Reg.V6 {
		cls["destination-in-16-byte-form"] = true
	}
	ok, pan, _ := e.aRunHandler(conn, c04Dst(c), 30*time.Second)
	defer func() { res.waited = conn.TimedOutWaiting }()
	for k := range cls {
		res.classes = append(res.classes, k)
	}
	sort.Strings(res.classes)
	res.classes = append(res.classes, "transport:"+aTT[c.Reg.TT].String())
	res.nontriv = cls["cut-inside-tag"] || cls["cut-between-prefix-and-tag"] || cls["cut-inside-early-data"] || cls["early-data-with-tag-segment"]
	if pan != nil {
		res.key, res.msg = "panic", fmt.Sprintf("handler panicked: %v", pan)
		return res
	}
	if !ok {
		res.key, res.msg = "no-return", "handler did not return within 30 s after the client closed"
		return res
	}
	if !e.cov.Sync(20 * time.Second) {
		res.key, res.msg = "harness", "covert listener did not accept the marker connection"
		return res
	}
	if conn.TimedOutWaiting {
		// the reply never arrived at the client within the harness limit
		sess := e.cov.Sessions()
		if len(sess) == 0 {
			res.key, res.msg = "not-recognised", "valid flight was not recognised: covert never dialled"
			return res
		}
	}
	sess := e.cov.Sessions()
	if len(sess) == 0 {
		res.key, res.msg = "not-recognised", "valid flight was not recognised: covert never dialled"
		return res
	}
	if len(sess) > 1 {
		res.key, res.msg = "covert-dialled-twice", fmt.Sprintf("covert dialled %d times for one connection", len(sess))
		return res
	}
	select {
	case <-sess[0].Done:
	case <-time.After(10 * time.Second):
		res.key, res.msg = "covert-not-closed", "covert connection still open 10 s after the handler returned"
		return res
	}
	got := sess[0].Bytes()
	if !bytes.Equal(got, app) {
		res.key = "upstream-bytes"
		res.msg = fmt.Sprintf("covert received %d bytes, client sent %d application bytes; %s", len(got), len(app), c04Diff(got, app))
		return res
	}
	events, written, _, _ := conn.Snapshot()
	if !bytes.Equal(written, reply) {
		res.key = "downstream-bytes"
		res.msg = fmt.Sprintf("client received %d bytes, covert replied %d; %s", len(written), len(reply), c04Diff(written, reply))
		return res
	}
	// registration marked used: an Update announcement for exactly this registration + used state
	upd := 0
	for _, a := range e.Anns() {
		if a.Op == "Update" {
			upd++
			if a.Secret != fmt.Sprintf("%x", aSecret(c.Reg.Secret)) || a.Phantom != aPhantom(0, c.Reg.V6).String() {
				res.key, res.msg = "wrong-registration", fmt.Sprintf("registration marked used is %s@%s, not the client's", a.Secret[:16], a.Phantom)
				return res
			}
		}
	}
	_, _, used := cj.VerifRegState(e.rm, reg)
	if upd == 0 || !used {
		res.key, res.msg = "not-marked-used", fmt.Sprintf("registration not marked used (update announcements=%d, used=%v)", upd, used)
		return res
	}
	if midSeen && !usedMidSession {
		res.key, res.msg = "not-marked-used-while-connected", "while the tunnel was open (covert had received the client's data) the registration was not yet marked used: a sweep during the session would forget a registration that is carrying a connection"
		return res
	}
	// classification deadline cleared before relaying
	cleared := false
	for _, ev := range events {
		if ev.Kind == "setdeadline" && ev.ZeroDL {
			cleared = true
		}
		if ev.Kind == "write" && !cleared {
			res.key, res.msg = "deadline-not-cleared", "relay wrote to the client before the classification deadline was cleared"
			return res
		}
		if ev.Kind == "setdeadline" && !ev.ZeroDL && ev.Deadline > 11*time.Second && !cleared {
			res.key, res.msg = "deadline-not-cleared", "relay deadlines set without clearing the classification deadline first"
			return res
		}
	}
	if !cleared {
		res.key, res.msg = "deadline-not-cleared", "classification deadline never cleared on the wrapped connection"
		return res
	}
	return res
}

// c04Dst is the original destination handed to the handler for the case's phantom.
func c04Dst(c c04Case) net.IP {
	ph := aPhantom(0, c.Reg.V6)
	if c.Dst16 && !c.Reg.V6 {
		return net.IPv4(ph[0], ph[1], ph[2], ph[3]) // 16-byte form, as getOriginalDst builds it
	}
	return ph
}

func c04Diff(got, want []byte) string {
	n := len(got)
	if len(want) < n {
		n = len(want)
	}
	for i := 0; i < n; i++ {
		if got[i] != want[i] {
			return fmt.Sprintf("first difference at offset %d", i)
		}
	}
	if len(got) < len(want) {
		return fmt.Sprintf("prefix of expected; %d bytes missing at the end", len(want)-len(got))
	}
	if len(got) > len(want) {
		return fmt.Sprintf("expected is a prefix; %d extra bytes", len(got)-len(want))
	}
	return "equal"
}

func c04Check(t vh.Fataler, rec *vh.Rec, e *aEnv, c c04Case) {
	r := c04Run(e, c, 6*time.Second)
	if r.key != "" && r.key != "harness" && r.waited {
		// a real-time wait hit its limit: repeat once with a generous limit before believing it
		r = c04Run(e, c, 25*time.Second)
	}
	rec.Case(r.nontriv, vh.Digest(c), c, r.classes...)
	if r.key == "harness" {
		t.Fatalf("harness problem: %s", r.msg)
	}
	if r.key != "" {
		rec.Violation(t, r.key, c, "%s [transport %s prefix %d flush %d early %d cuts %v]", r.msg, aTT[c.Reg.TT], c.Reg.PrefixID, c.Flush, c.Early, c.Cuts)
	}
}

type c04Variant struct {
	tt    int
	pid   int32
	flush int32
}

func c04Variants() []c04Variant {
	v := []c04Variant{{0, 0, 0}}
	for _, p := range aPrefixIDs {
		for f := int32(0); f <= 2; f++ {
			v = append(v, c04Variant{1, p, f})
		}
	}
	return v
}

func c04Env(t *testing.T) *aEnv {
	e := aNewEnv(t)
	e.cov = aNewCovert(t)
	t.Cleanup(e.cov.Close)
	return e
}

// Exhaustive 1-cut (and in the thorough tier 2-cut) segmentations of flight + 24 bytes early data.
func TestVerif_C04_cuts(t *testing.T) {
	rec := vh.NewRec("C04", "cuts", "for min and every prefix id x flush policy: every 1-cut (quick) and every 2-cut (thorough) segmentation of [first flight + 24 early application bytes], covert replies 16 bytes; one other registration present; non-trivial = a cut strictly inside the tag / between prefix and tag / inside the early data; distinct by (variant, cuts)")
	defer rec.Flush()
	rec.Require("cut-inside-tag", "cut-between-prefix-and-tag", "cut-inside-early-data", "cut-inside-prefix", "transport:Min", "transport:Prefix", "second-station-key")
	defer aSilenceStdout()()
	e := c04Env(t)
	if p := vh.ReplayFile(); p != "" {
		var c c04Case
		if _, _, err := vh.LoadReplay(p, &c); err != nil {
			t.Fatal(err)
		}
		c04Check(t, rec, e, c)
		return
	}
	rec.SetExhaustive(true)
	const early = 24
	idx := 0
	for vi, v := range c04Variants() {
		w, err := e.aFlight(aSecret(1), aTT[v.tt], v.pid, v.flush)
		if err != nil {
			t.Fatalf("harness problem: %v", err)
		}
		total := len(aJoin(w)) + early
		base := c04Case{Reg: aRegSpec{Secret: 1, TT: v.tt, PrefixID: v.pid}, Flush: v.flush, Early: early, Reply: 16, DataKey: vi, Key: vi % 2,
			Others: []aRegSpec{{Secret: 2, TT: (v.tt + 1) % 2, PrefixID: 1, Phantom: 0}}}
		for a := 1; a < total; a++ {
			idx++
			if vh.Mine(idx) {
				c := base
				c.Cuts = []int{a}
				c04Check(t, rec, e, c)
			}
			if vh.Thorough() {
				for b := a + 1; b < total; b++ {
					idx++
					if vh.Mine(idx) {
						c := base
						c.Cuts = []int{a, b}
						c04Check(t, rec, e, c)
					}
				}
			}
		}
	}
}

func c04Gen(rt *rapid.T) c04Case {
	vs := c04Variants()
	v := rapid.SampledFrom(vs).Draw(rt, "variant")
	c := c04Case{Reg: aRegSpec{Secret: rapid.IntRange(0, 5).Draw(rt, "secret"), TT: v.tt, PrefixID: v.pid, V6: rapid.IntRange(0, 3).Draw(rt, "v6") == 0}, Flush: v.flush}
	c.Early = rapid.SampledFrom([]int{0, 0, 1, 7, 64, 300, 4095, 4096, 4097, 9000, 32768, 32769, 65536}).Draw(rt, "early")
	c.Reply = rapid.SampledFrom([]int{0, 1, 16, 5000, 40000}).Draw(rt, "reply")
	c.DataKey = rapid.IntRange(0, 1000).Draw(rt, "datakey")
	c.Key = rapid.IntRange(0, 1).Draw(rt, "stationkey")
	c.Again = rapid.SampledFrom([]int{0, 0, 0, 1, 2}).Draw(rt, "again")
	c.Dst16 = rapid.Bool().Draw(rt, "dst16")
	if rapid.IntRange(0, 3).Draw(rt, "strays") == 0 {
		c.Strays = rapid.IntRange(1, 4).Draw(rt, "nstrays")
		c.StrayLen = rapid.SampledFrom([]int{1, 31, 100, 1000, 5000}).Draw(rt, "straylen")
	}
	if rapid.IntRange(0, 11).Draw(rt, "slowcovert") == 0 {
		// the client uploads, closes at once; the covert only starts reading later
		c.SlowMs = rapid.SampledFrom([]int{40, 150}).Draw(rt, "slowms")
		c.Early = rapid.SampledFrom([]int{4096, 65536, 262144, 1048576}).Draw(rt, "bigearly")
		c.Reply = 0
		c.Again = 0
	}
	no := rapid.IntRange(0, 4).Draw(rt, "nothers")
	for i := 0; i < no; i++ {
		o := aRegSpec{Secret: 10 + rapid.IntRange(0, 5).Draw(rt, "osecret"), TT: rapid.IntRange(0, 2).Draw(rt, "ott"), Phantom: rapid.SampledFrom([]int{0, 0, 1}).Draw(rt, "ophantom"), V6: c.Reg.V6}
		if o.TT == 1 {
			o.PrefixID = rapid.SampledFrom(aPrefixIDs).Draw(rt, "oprefix")
		}
		c.Others = append(c.Others, o)
	}
	flightMax := 85
	if v.tt == 0 {
		flightMax = 32
	}
	limit := flightMax + c.Early
	k := rapid.SampledFrom([]int{0, 1, 2, 3, 5, 8, 20}).Draw(rt, "ncuts")
	set := map[int]bool{}
	for i := 0; i < k; i++ {
		var p int
		if rapid.Bool().Draw(rt, "nearflight") {
			p = rapid.IntRange(1, flightMax+8).Draw(rt, "cutpos")
		} else {
			p = rapid.IntRange(1, limit).Draw(rt, "cutpos")
		}
		set[p] = true
	}
	for p := range set {
		c.Cuts = append(c.Cuts, p)
	}
	sort.Ints(c.Cuts)
	for range c.Cuts {
		if rapid.IntRange(0, 3).Draw(rt, "haspause") == 0 {
			c.Pauses = append(c.Pauses, int64(rapid.SampledFrom([]int{1, 100, 1500, 4000}).Draw(rt, "pause")))
		} else {
			c.Pauses = append(c.Pauses, 0)
		}
	}
	// keep the sum of pauses below the shortest possible classification deadline (5 s): a slower
	// client legitimately times out and is outside the property
	var sum int64
	for i, p := range c.Pauses {
		if sum+p > 4500 {
			c.Pauses[i] = 0
			continue
		}
		sum += p
	}
	return c
}

func TestVerif_C04_random(t *testing.T) {
	rec := vh.NewRec("C04", "random", "rapid-generated cases: transport variant x secret x family x early-data size 0..64 KiB x reply size x 0-20 cuts (biased to the flight) x virtual pauses (< 4.5 s in total) x 0-4 other registrations (other secrets, all transports, same/other phantom) x 0-4 stray connections (junk, then close) handled on the same phantom just before x original destination in the 4-byte or the 16-byte form of an IPv4 address x 0-2 further connections of the same client on the same registration x (1 in 12) an upload of up to 1 MiB followed by an immediate close towards a covert that starts reading 40-150 ms later; non-trivial as in 'cuts' or early data sharing a segment with the tag; distinct by case")
	defer rec.Flush()
	rec.Require("cut-inside-tag", "cut-inside-early-data", "early-data-with-tag-segment", "transport:Min", "transport:Prefix", "reconnects", "large-upload-to-late-covert", "after-stray-connections", "destination-in-16-byte-form")
	defer aSilenceStdout()()
	e := c04Env(t)
	if p := vh.ReplayFile(); p != "" {
		var c c04Case
		if _, _, err := vh.LoadReplay(p, &c); err != nil {
			t.Fatal(err)
		}
		c04Check(t, rec, e, c)
		return
	}
	rapid.Check(t, func(rt *rapid.T) {
		c04Check(rt, rec, e, c04Gen(rt))
	})
}

// obfs4: a live client end (the channel is encrypted and the handshake length is random), with a
// segmenting shim between client and station.
type c04ObfsCase struct {
	Secret int   `json:"secret"`
	Sizes  []int `json:"sizes"` // sizes of the pieces the shim forwards to the station (cycled)
	Early  int   `json:"early"`
	Reply  int   `json:"reply"`
	Others int   `json:"others"`
	Via    string `json:"via,omitempty"` // "" = registration object built directly; "message-v4" / "message-v6" = one serialized dual-stack registration message through the station's real parse + ingest, the client then connects to the IPv4 / IPv6 phantom
}

type c04AddrConn struct {
	net.Conn
	remote net.Addr
}

func (c c04AddrConn) RemoteAddr() net.Addr { return c.remote }

func c04ObfsRun(e *aEnv, c c04ObfsCase) c04Result {
	cj.VerifResetRegistry(e.rm)
	e.ClearAnns()
	spec := aRegSpec{Secret: c.Secret, TT: 2, Phantom: 0, Covert: e.cov.Addr()}
	v6 := c.Via == "message-v6"
	var reg *cj.DecoyRegistration
	var err error
	if c.Via == "" {
		reg, err = e.aMakeReg(spec)
		if err != nil {
			return c04Result{key: "harness", msg: err.Error()}
		}
	}
	for i := 0; i < c.Others; i++ {
		o, err := e.aMakeReg(aRegSpec{Secret: 20 + i, TT: []int{2, 0, 1}[i%3], PrefixID: 1, Phantom: 0, Covert: "127.0.0.1:1"})
		if err != nil {
			return c04Result{key: "harness", msg: err.Error()}
		}
		e.rm.AddRegistration(o)
	}
	if c.Via == "" {
		e.rm.AddRegistration(reg)
	} else {
		// what the registrar forwards for a dual-stack client: one message, both families
		params, perr := anypb.New(&pb.GenericTransportParams{RandomizeDstPort: proto.Bool(false)})
		if perr != nil {
			return c04Result{key: "harness", msg: perr.Error()}
		}
		w := &pb.C2SWrapper{
			SharedSecret: aSecret(c.Secret),
			RegistrationPayload: &pb.ClientToStation{
				ClientLibVersion:    proto.Uint32(core.CurrentClientLibraryVersion()),
				DecoyListGeneration: proto.Uint32(957),
				CovertAddress:       proto.String(e.cov.Addr()),
				V4Support:           proto.Bool(true),
				V6Support:           proto.Bool(true),
				Transport:           pb.TransportType_Obfs4.Enum(),
				TransportParams:     params,
				Flags:               &pb.RegistrationFlags{},
			},
			RegistrationSource:  pb.RegistrationSource_BidirectionalAPI.Enum(),
			RegistrationAddress: []byte(net.IPv4(198, 51, 100, 7).To4()),
			RegistrationResponse: &pb.RegistrationResponse{
				Ipv4Addr: proto.Uint32(binary.BigEndian.Uint32(aPhantom(0, false).To4())),
				Ipv6Addr: []byte(aPhantom(0, true).To16()),
			},
		}
		b, merr := proto.Marshal(w)
		if merr != nil {
			return c04Result{key: "harness", msg: merr.Error()}
		}
		n, ierr := cj.VerifIngestMessage(e.rm, b)
		if ierr != nil || n != 2 {
			return c04Result{key: "harness", msg: fmt.Sprintf("dual-stack message: %d registrations, %v", n, ierr)}
		}
	}
	e.ClearAnns()
	app := aPayload(c.Secret, c.Early, "oup")
	reply := aPayload(c.Secret, c.Reply, "odown")
	e.cov.Arm(len(app), reply)

	cliEnd, shimA := net.Pipe()     // client <-> shim
	shimB, stationEnd := net.Pipe() // shim <-> station
	sconn := c04AddrConn{Conn: stationEnd, remote: &net.TCPAddr{IP: net.IPv4(203, 0, 113, 77), Port: 5555}}
	if v6 {
		sconn.remote = &net.TCPAddr{IP: net.ParseIP("2001:db8::77"), Port: 5555}
	}
	pieces := 0
	shimDone := make(chan struct{}, 2)
	go func() { // client -> station, re-segmented
		defer func() { shimDone <- struct{}{} }()
		defer shimB.Close()
		buf := make([]byte, 65536)
		si := 0
		for {
			n, err := shimA.Read(buf)
			b := buf[:n]
			for len(b) > 0 {
				k := len(b)
				if len(c.Sizes) > 0 {
					k = c.Sizes[si%len(c.Sizes)]
					si++
					if k > len(b) {
						k = len(b)
					}
				}
				if _, werr := shimB.Write(b[:k]); werr != nil {
					return
				}
				pieces++
				b = b[k:]
			}
			if err != nil {
				return
			}
		}
	}()
	go func() { // station -> client, unchanged
		defer func() { shimDone <- struct{}{} }()
		defer shimA.Close()
		_, _ = io.Copy(shimA, shimB)
	}()
	type cres struct {
		got []byte
		err error
	}
	cdone := make(chan cres, 1)
	go func() {
		keys, err := core.GenSharedKeys(uint(core.CurrentClientLibraryVersion()), aSecret(c.Secret), pb.TransportType_Obfs4)
		if err != nil {
			cdone <- cres{err: err}
			return
		}
		ct := &obfs4.ClientTransport{}
		if err := ct.PrepareKeys(e.pub, aSecret(c.Secret), keys.TransportReader); err != nil {
			cdone <- cres{err: err}
			return
		}
		_ = cliEnd.SetDeadline(time.Now().Add(25 * time.Second))
		oc, err := ct.WrapConn(cliEnd)
		if err != nil {
			cliEnd.Close()
			cdone <- cres{err: fmt.Errorf("client handshake: %w", err)}
			return
		}
		if len(app) > 0 {
			if _, err := oc.Write(app); err != nil {
				oc.Close()
				cdone <- cres{err: fmt.Errorf("client write: %w", err)}
				return
			}
		}
		got := make([]byte, len(reply))
		_, err = io.ReadFull(oc, got)
		oc.Close()
		cdone <- cres{got: got, err: err}
	}()
	ok, pan, _ := e.aRunHandler(sconn, aPhantom(0, v6), 40*time.Second)
	res := c04Result{classes: []string{"transport:Obfs4"}, nontriv: len(c.Sizes) > 0}
	if c.Via != "" {
		res.classes = append(res.classes, "registered-by-"+c.Via)
	}
	if len(c.Sizes) > 0 {
		res.classes = append(res.classes, "resegmented")
	}
	var cr cres
	select {
	case cr = <-cdone:
	case <-time.After(30 * time.Second):
		cliEnd.Close()
		stationEnd.Close()
		res.key, res.msg = "client-stuck", "obfs4 client did not finish within 30 s"
		return res
	}
	cliEnd.Close()
	stationEnd.Close()
	<-shimDone
	<-shimDone
	if pan != nil {
		res.key, res.msg = "panic", fmt.Sprintf("handler panicked: %v", pan)
		return res
	}
	if !ok {
		res.key, res.msg = "no-return", "handler did not return within 40 s"
		return res
	}
	if cr.err != nil {
		res.key, res.msg = "not-recognised", fmt.Sprintf("obfs4 client failed: %v", cr.err)
		return res
	}
	if !e.cov.Sync(20 * time.Second) {
		res.key, res.msg = "harness", "covert listener did not accept the marker connection"
		return res
	}
	sess := e.cov.Sessions()
	if len(sess) != 1 {
		res.key, res.msg = "not-recognised", fmt.Sprintf("covert dialled %d times", len(sess))
		return res
	}
	select {
	case <-sess[0].Done:
	case <-time.After(10 * time.Second):
		res.key, res.msg = "covert-not-closed", "covert connection still open 10 s after the handler returned"
		return res
	}
	if got := sess[0].Bytes(); !bytes.Equal(got, app) {
		res.key, res.msg = "upstream-bytes", fmt.Sprintf("covert received %d bytes, client sent %d; %s", len(got), len(app), c04Diff(got, app))
		return res
	}
	if !bytes.Equal(cr.got, reply) {
		res.key, res.msg = "downstream-bytes", fmt.Sprintf("client received differs from covert reply; %s", c04Diff(cr.got, reply))
		return res
	}
	if reg == nil {
		// registered through a message: identify the tracked registration by (phantom, identifier)
		spec.V6 = v6
		if reg, err = e.aMakeReg(spec); err != nil {
			res.key, res.msg = "harness", err.Error()
			return res
		}
	}
	_, _, used := cj.VerifRegState(e.rm, reg)
	if !used {
		res.key, res.msg = "not-marked-used", "obfs4 registration not marked used"
		return res
	}
	return res
}

func TestVerif_C04_obfs4(t *testing.T) {
	rec := vh.NewRec("C04", "obfs4", "live obfs4 client <-> segmenting shim <-> handleNewTCPConn <-> loopback covert; the shim forwards the client's bytes in pieces whose sizes cycle through a drawn list (1..4096), early data 0..20000 bytes, 0-3 other registrations; the registration is built directly or (half of the cases) comes from one serialized dual-stack registration message through the station's real parse + ingest, the client then connecting to the IPv4 or the IPv6 phantom; non-trivial = re-segmented; distinct by case")
	defer rec.Flush()
	rec.Require("resegmented", "registered-by-message-v6", "registered-by-message-v4")
	defer aSilenceStdout()()
	e := c04Env(t)
	run := func(tt vh.Fataler, c c04ObfsCase) {
		r := c04ObfsRun(e, c)
		rec.Case(r.nontriv, vh.Digest(c), c, r.classes...)
		if r.key == "harness" {
			tt.Fatalf("harness problem: %s", r.msg)
		}
		if r.key != "" {
			rec.Violation(tt, r.key, c, "%s [obfs4 sizes %v early %d]", r.msg, c.Sizes, c.Early)
		}
	}
	if p := vh.ReplayFile(); p != "" {
		var c c04ObfsCase
		if _, _, err := vh.LoadReplay(p, &c); err != nil {
			t.Fatal(err)
		}
		run(t, c)
		return
	}
	// fixed piece sizes 1..N exhaustively for small N, then drawn lists
	maxFixed := vh.Pick(3, 40)
	for k := 1; k <= maxFixed; k++ {
		if vh.Mine(k) {
			run(t, c04ObfsCase{Secret: k % 6, Sizes: []int{k}, Early: 100, Reply: 50, Others: k % 3, Via: []string{"", "message-v6", "message-v4"}[k%3]})
		}
	}
	n := vh.Pick(12, 400)
	_, shards := vh.Shard()
	n = (n + shards - 1) / shards
	left := n
	rapid.Check(t, func(rt *rapid.T) {
		if left <= 0 {
			return
		}
		left--
		c := c04ObfsCase{Secret: rapid.IntRange(0, 5).Draw(rt, "secret"), Early: rapid.SampledFrom([]int{0, 1, 100, 5000, 20000}).Draw(rt, "early"),
			Reply: rapid.SampledFrom([]int{1, 50, 9000}).Draw(rt, "reply"), Others: rapid.IntRange(0, 3).Draw(rt, "others"),
			Via: rapid.SampledFrom([]string{"", "", "message-v4", "message-v6"}).Draw(rt, "via")}
		k := rapid.IntRange(0, 6).Draw(rt, "nsizes")
		for i := 0; i < k; i++ {
			c.Sizes = append(c.Sizes, rapid.SampledFrom([]int{1, 2, 7, 31, 32, 33, 63, 64, 65, 100, 500, 1448, 4096}).Draw(rt, "size"))
		}
		run(rt, c)
	})
}

// obfs4 handshakes of every padding length at the boundaries. The real client draws its padding at
// random (the longest handshakes are rare: about 0.4 % of dials are within 32 bytes of the maximum),
// so the client handshake is built here from the published format X | P_C | M_C | MAC(X|P_C|M_C|E)
// with the ntor primitives of the obfs4 library; the station must recognise it (it answers with
// its server handshake and dials the covert).
type c04PadCase struct {
	Secret int `json:"secret"`
	Pad    int `json:"pad"`
	Cut    int `json:"cut"` // 0 = one segment; otherwise the handshake is delivered in two segments cut here (counted from the end if negative)
}

func c04Obfs4Keys(secret []byte) (pub [32]byte, nodeID [20]byte, err error) {
	keys, err := core.GenSharedKeys(uint(core.CurrentClientLibraryVersion()), secret, pb.TransportType_Obfs4)
	if err != nil {
		return
	}
	var priv [32]byte
	if _, err = io.ReadFull(keys.TransportReader, priv[:]); err != nil {
		return
	}
	priv[0] &= 248
	priv[31] &= 127
	priv[31] |= 64
	p, err := curve25519.X25519(priv[:], curve25519.Basepoint)
	if err != nil {
		return
	}
	copy(pub[:], p)
	_, err = io.ReadFull(keys.TransportReader, nodeID[:])
	return
}

func c04CraftHandshake(pub [32]byte, nodeID [20]byte, padLen int, padKey int) ([]byte, error) {
	kp, err := ntor.NewKeypair(true)
	if err != nil {
		return nil, err
	}
	mac := hmac.New(sha256.New, append(append([]byte(nil), pub[:]...), nodeID[:]...))
	repr := kp.Representative().Bytes()[:]
	mac.Write(repr)
	mark := mac.Sum(nil)[:16]
	var buf bytes.Buffer
	buf.Write(repr)
	buf.Write(aPayload(padKey, padLen, "obfs4pad"))
	buf.Write(mark)
	mac.Reset()
	mac.Write(buf.Bytes())
	mac.Write([]byte(strconv.FormatInt(time.Now().Unix()/3600, 10)))
	buf.Write(mac.Sum(nil)[:16])
	return buf.Bytes(), nil
}

func TestVerif_C04_obfs4pad(t *testing.T) {
	rec := vh.NewRec("C04", "obfs4pad", "obfs4 client handshakes built from the published format for every padding length at the boundaries (minimum, minimum+1, the last 40 lengths up to the maximum, a few in between), delivered in one segment or cut near the end; oracle: the station answers with its server handshake (>= 96 bytes written) and dials the covert exactly once; non-trivial = padding within 64 bytes of a boundary; distinct by case")
	defer rec.Flush()
	rec.Require("pad:max", "pad:min")
	defer aSilenceStdout()()
	e := c04Env(t)
	run := func(tt vh.Fataler, c c04PadCase) {
		cj.VerifResetRegistry(e.rm)
		e.ClearAnns()
		spec := aRegSpec{Secret: c.Secret, TT: 2, Phantom: 0, Covert: e.cov.Addr()}
		reg, err := e.aMakeReg(spec)
		if err != nil {
			tt.Fatalf("harness problem: %v", err)
		}
		e.rm.AddRegistration(reg)
		pub, nodeID, err := c04Obfs4Keys(aSecret(c.Secret))
		if err != nil {
			tt.Fatalf("harness problem: %v", err)
		}
		hs, err := c04CraftHandshake(pub, nodeID, c.Pad, c.Secret*100000+c.Pad)
		if err != nil {
			tt.Fatalf("harness problem: %v", err)
		}
		steps := []vconn.Step{{Data: vh.Hex(hs)}}
		if c.Cut != 0 {
			k := c.Cut
			if k < 0 {
				k = len(hs) + k
			}
			if k > 0 && k < len(hs) {
				steps = []vconn.Step{{Data: vh.Hex(hs[:k])}, {Data: vh.Hex(hs[k:])}}
			}
		}
		conn := vconn.New(vconn.Script{Reads: steps, End: "hold", Remote: "203.0.113.77:5555"})
		e.cov.Arm(1<<30, nil)
		ok, pan, _ := e.aRunHandler(conn, aPhantom(0, false), 40*time.Second)
		classes := []string{}
		near := false
		switch {
		case c.Pad == obfs4.ClientMaxPadLength:
			classes = append(classes, "pad:max")
		case c.Pad == obfs4.ClientMinPadLength:
			classes = append(classes, "pad:min")
		}
		if c.Pad >= obfs4.ClientMaxPadLength-64 || c.Pad <= obfs4.ClientMinPadLength+64 {
			near = true
		}
		rec.Case(near, vh.Digest(c), c, classes...)
		if pan != nil {
			rec.Violation(tt, "panic", c, "handler panicked: %v", pan)
			return
		}
		if !ok {
			tt.Fatalf("harness problem: handler did not return within 40 s")
		}
		if !e.cov.Sync(20 * time.Second) {
			tt.Fatalf("harness problem: covert listener did not accept the marker connection")
		}
		_, written, _, _ := conn.Snapshot()
		sess := e.cov.Sessions()
		if len(written) < 96 || len(sess) != 1 {
			rec.Violation(tt, "not-recognised", c, "valid obfs4 handshake with %d bytes of padding (%d bytes in total) was not recognised: station wrote %d bytes, covert dialled %d times", c.Pad, len(hs), len(written), len(sess))
		}
	}
	if p := vh.ReplayFile(); p != "" {
		var c c04PadCase
		if _, _, err := vh.LoadReplay(p, &c); err != nil {
			t.Fatal(err)
		}
		run(t, c)
		return
	}
	var pads []int
	pads = append(pads, obfs4.ClientMinPadLength, obfs4.ClientMinPadLength+1, 500, 4000, 4011, 4012, 4013, 8000)
	for p := obfs4.ClientMaxPadLength - 40; p <= obfs4.ClientMaxPadLength; p++ {
		pads = append(pads, p)
	}
	i := 0
	for _, p := range pads {
		for _, cut := range []int{0, -1, -32, 4096} {
			i++
			if vh.Mine(i) {
				run(t, c04PadCase{Secret: i % 6, Pad: p, Cut: cut})
			}
		}
	}
}
