package main

// C04 `history` — the property speaks about "a registered client" and about "other registrations
// present on the same phantom"; how the registry got into that state is not restricted. The other
// sub-checks always build it the same way (every other registration added, then the client's, both
// with the one-step AddRegistration, then the connection). Here the state is reached through a
// drawn HISTORY of registry events and connections, in the order of events of the real ingest path:
//
//	before   events while the client's registration is not known yet
//	track    the registration is tracked, not yet valid (TrackRegIfNotExists / TrackRegistration, or
//	         the station's real ingestRegistration, which does this before the liveness check)
//	gap      events while it is tracked but not valid (for the real ingest path they run inside the
//	         liveness check of the phantom - the seam the ingest worker itself offers)
//	validate AddRegistration (or the rest of ingestRegistration)
//	after    events while it is valid, before its client connects
//	connect  the client's genuine flight in a drawn segmentation, judged exactly like every other C04 case
//
// Events: a stray connection on the phantom (junk, then close), the client connecting too early (its
// genuine flight while the registration is not valid yet - not judged), a look-up of the phantom's
// registrations, another registration tracked / added (tracked + validated) / expired.
// The oracle is c04Once: the covert receives exactly the application bytes, the client the reply,
// the client's registration is marked used, the classification deadline is cleared.

import (
	"fmt"
	"sort"
	"testing"
	"time"

	cj "github.com/refraction-networking/conjure/pkg/station/lib"
	"pgregory.net/rapid"
	"verif/harness/vconn"
	"verif/harness/vh"
)

type c04HistEvent struct {
	Op    string `json:"op"`              // stray | early-client | lookup | track-other | add-other | expire-other
	Other int    `json:"other,omitempty"` // index into C.Others
	Len   int    `json:"len,omitempty"`   // stray: bytes of junk; early-client: application bytes behind the flight
}

type c04HistCase struct {
	C c04Case `json:"c"` // the client's registration, the other registrations' specs and the judged connection
	// how the client's registration becomes valid: "add" = AddRegistration alone (no gap), "ingest" =
	// the station's real ingestRegistration, "track-if-not-exists" / "track" = that API call, the gap
	// events, then AddRegistration
	Mode   string         `json:"mode"`
	Before []c04HistEvent `json:"before,omitempty"`
	Gap    []c04HistEvent `json:"gap,omitempty"`
	After  []c04HistEvent `json:"after,omitempty"`
}

// c04GapTester is the liveness tester of the registration manager for the duration of one ingest:
// the phantom is not live, and the check takes as long as the events in `run` take.
type c04GapTester struct {
	aTester
	run   func()
	calls int
}

func (g *c04GapTester) PhantomIsLive(string, uint16) (bool, error) {
	g.calls++
	if f := g.run; f != nil {
		g.run = nil
		f()
	}
	return false, nil
}

type c04Hist struct {
	e      *aEnv
	c      c04HistCase
	others []*cj.DecoyRegistration // object currently tracked for C.Others[i], nil if none
	cls    map[string]bool
	err    error
}

func (h *c04Hist) otherObj(i int) (*cj.DecoyRegistration, error) {
	o := h.c.C.Others[i]
	o.Covert = "127.0.0.1:1" // must never be dialled
	return h.e.aMakeReg(o)
}

// do executes one event. phase is "before", "gap" or "after".
func (h *c04Hist) do(ev c04HistEvent, phase string) {
	if h.err != nil {
		return
	}
	e, c := h.e, h.c.C
	switch ev.Op {
	case "stray":
		junk := aPayload(c.DataKey+ev.Len, ev.Len, "hstray")
		sc := vconn.New(vconn.Script{Reads: []vconn.Step{{Data: vh.Hex(junk)}}, End: "eof", Remote: "203.0.113.99:4444"})
		if ok, pan, _ := e.aRunHandler(sc, c04Dst(c), 30*time.Second); pan != nil || !ok {
			h.err = fmt.Errorf("stray connection (%s): returned=%v panic=%v", phase, ok, pan)
			return
		}
	case "early-client":
		if phase == "after" {
			return // the registration is valid: that would be a connection of the property, not an event
		}
		w, err := e.aFlightKey(aSecret(c.Reg.Secret), aTT[c.Reg.TT], c.Reg.PrefixID, c.Flush, c.Key)
		if err != nil {
			h.err = fmt.Errorf("flight: %v", err)
			return
		}
		data := append(aJoin(w), aPayload(c.DataKey, ev.Len, "hearly")...)
		sc := vconn.New(vconn.Script{Reads: []vconn.Step{{Data: vh.Hex(data)}}, End: "eof", Remote: "203.0.113.77:5554"})
		if ok, pan, _ := e.aRunHandler(sc, c04Dst(c), 30*time.Second); pan != nil || !ok {
			h.err = fmt.Errorf("too-early client connection (%s): returned=%v panic=%v", phase, ok, pan)
			return
		}
	case "lookup":
		_ = e.rm.GetRegistrations(c04Dst(c))
	case "track-other", "add-other":
		if ev.Other >= len(c.Others) || c.Others[ev.Other].Secret == c.Reg.Secret {
			return
		}
		if h.others[ev.Other] == nil {
			o, err := h.otherObj(ev.Other)
			if err != nil {
				h.err = fmt.Errorf("make other reg: %v", err)
				return
			}
			h.others[ev.Other] = o
			if ev.Op == "track-other" {
				if err := e.rm.TrackRegistration(o); err != nil {
					h.err = fmt.Errorf("track other reg: %v", err)
					return
				}
			}
		}
		if ev.Op == "add-other" {
			e.rm.AddRegistration(h.others[ev.Other])
		}
	case "expire-other":
		if ev.Other >= len(c.Others) || h.others[ev.Other] == nil {
			return
		}
		cj.VerifShiftTimesOf(e.rm, h.others[ev.Other], 100*time.Hour)
		e.rm.RemoveOldRegistrations()
		h.others[ev.Other] = nil
	default:
		h.err = fmt.Errorf("unknown event %q", ev.Op)
		return
	}
	onPhantom := ev.Op == "stray" || ev.Op == "early-client" || ev.Op == "lookup" || (ev.Other < len(c.Others) && c.Others[ev.Other].Phantom == 0)
	if !onPhantom {
		return
	}
	kind := "other-registration-changed"
	if ev.Op == "stray" || ev.Op == "early-client" || ev.Op == "lookup" {
		kind = "phantom-looked-up"
	}
	switch phase {
	case "before":
		h.cls[kind+"-before-tracked"] = true
	case "gap":
		h.cls[kind+"-while-tracked-not-valid"] = true
	case "after":
		h.cls[kind+"-after-valid"] = true
	}
	if ev.Op == "expire-other" {
		h.cls["other-registration-expired-before-connect"] = true
	}
	if ev.Op == "early-client" {
		h.cls["client-connected-too-early"] = true
	}
}

func c04HistRun(e *aEnv, hc c04HistCase, waitLimit time.Duration) (res c04Result) {
	cj.VerifResetRegistry(e.rm)
	e.ClearAnns()
	c := hc.C
	c.Reg.Phantom = 0
	c.Reg.Covert = e.cov.Addr()
	c.Again, c.Strays, c.SlowMs = 0, 0, 0
	hc.C = c
	h := &c04Hist{e: e, c: hc, others: make([]*cj.DecoyRegistration, len(c.Others)), cls: map[string]bool{}}
	reg, err := e.aMakeReg(c.Reg)
	if err != nil {
		return c04Result{key: "harness", msg: fmt.Sprintf("make reg: %v", err)}
	}
	for _, ev := range hc.Before {
		h.do(ev, "before")
	}
	gap := func() {
		for _, ev := range hc.Gap {
			h.do(ev, "gap")
		}
	}
	switch hc.Mode {
	case "add":
		e.rm.AddRegistration(reg)
	case "ingest":
		// the ingest worker's own order of events; the gap is its liveness check of the phantom
		// (done for IPv4 phantoms that no other station has scanned)
		gt := &c04GapTester{run: gap}
		old := e.rm.LivenessTester
		e.rm.LivenessTester = gt
		cj.VerifIngest(e.rm, reg)
		e.rm.LivenessTester = old
		if gt.calls > 0 {
			h.cls["registered-by-ingest-with-events-during-liveness-check"] = true
		} else {
			h.cls["registered-by-ingest"] = true
		}
	case "track-if-not-exists", "track":
		if hc.Mode == "track" {
			err = e.rm.TrackRegistration(reg)
		} else {
			_, err = e.rm.TrackRegIfNotExists(reg)
		}
		if err != nil {
			return c04Result{key: "harness", msg: fmt.Sprintf("track reg: %v", err)}
		}
		gap()
		e.rm.AddRegistration(reg)
		h.cls["registered-by-track-then-add"] = true
	default:
		return c04Result{key: "harness", msg: fmt.Sprintf("unknown mode %q", hc.Mode)}
	}
	for _, ev := range hc.After {
		h.do(ev, "after")
	}
	if h.err != nil {
		return c04Result{key: "harness", msg: h.err.Error()}
	}
	cls := map[string]bool{}
	res = c04Once(e, c, reg, cls, waitLimit, 0)
	for k := range h.cls {
		res.classes = append(res.classes, k)
	}
	sort.Strings(res.classes)
	// what makes a history case worth counting: something happened on the phantom between the
	// moment the registration was tracked and the client's connection
	res.nontriv = h.cls["phantom-looked-up-while-tracked-not-valid"] || h.cls["other-registration-changed-while-tracked-not-valid"] ||
		h.cls["phantom-looked-up-after-valid"] || h.cls["other-registration-changed-after-valid"]
	return res
}

func c04HistCheck(t vh.Fataler, rec *vh.Rec, e *aEnv, hc c04HistCase) {
	r := c04HistRun(e, hc, 6*time.Second)
	if r.key != "" && r.key != "harness" && r.waited {
		// a real-time wait hit its limit: repeat once with a generous limit before believing it
		r = c04HistRun(e, hc, 25*time.Second)
	}
	rec.Case(r.nontriv, vh.Digest(hc), hc, r.classes...)
	if r.key == "harness" {
		t.Fatalf("harness problem: %s", r.msg)
	}
	if r.key != "" {
		c := hc.C
		rec.Violation(t, r.key, hc, "%s [registration made valid by %q; events before it was tracked %s, while tracked but not valid %s, while valid before the client connected %s; transport %s prefix %d flush %d early %d cuts %v]",
			r.msg, hc.Mode, c04EvStr(hc.Before), c04EvStr(hc.Gap), c04EvStr(hc.After), aTT[c.Reg.TT], c.Reg.PrefixID, c.Flush, c.Early, c.Cuts)
	}
}

func c04EvStr(evs []c04HistEvent) string {
	s := "["
	for i, ev := range evs {
		if i > 0 {
			s += " "
		}
		s += ev.Op
		switch ev.Op {
		case "stray", "early-client":
			s += fmt.Sprintf("(%d)", ev.Len)
		case "track-other", "add-other", "expire-other":
			s += fmt.Sprintf("(#%d)", ev.Other)
		}
	}
	return s + "]"
}

var c04HistOps = []string{"stray", "early-client", "lookup", "track-other", "add-other", "expire-other"}

func c04HistGenEvents(rt *rapid.T, label string, max, nothers int) []c04HistEvent {
	n := rapid.IntRange(0, max).Draw(rt, label+"-n")
	var evs []c04HistEvent
	for i := 0; i < n; i++ {
		ev := c04HistEvent{Op: rapid.SampledFrom(c04HistOps).Draw(rt, label+"-op")}
		switch ev.Op {
		case "stray":
			ev.Len = rapid.SampledFrom([]int{1, 31, 32, 100, 1000}).Draw(rt, label+"-len")
		case "early-client":
			ev.Len = rapid.SampledFrom([]int{0, 5, 300}).Draw(rt, label+"-len")
		case "track-other", "add-other", "expire-other":
			if nothers == 0 {
				ev.Op = "lookup"
			} else {
				ev.Other = rapid.IntRange(0, nothers-1).Draw(rt, label+"-other")
			}
		}
		evs = append(evs, ev)
	}
	return evs
}

func c04HistGen(rt *rapid.T) c04HistCase {
	vs := c04Variants()
	v := rapid.SampledFrom(vs).Draw(rt, "variant")
	c := c04Case{Reg: aRegSpec{Secret: rapid.IntRange(0, 5).Draw(rt, "secret"), TT: v.tt, PrefixID: v.pid, V6: rapid.IntRange(0, 3).Draw(rt, "v6") == 0}, Flush: v.flush}
	c.Early = rapid.SampledFrom([]int{0, 1, 64, 4096, 9000}).Draw(rt, "early")
	c.Reply = rapid.SampledFrom([]int{0, 16, 5000}).Draw(rt, "reply")
	c.DataKey = rapid.IntRange(0, 1000).Draw(rt, "datakey")
	c.Key = rapid.IntRange(0, 1).Draw(rt, "stationkey")
	c.Dst16 = rapid.Bool().Draw(rt, "dst16")
	no := rapid.IntRange(0, 3).Draw(rt, "nothers")
	for i := 0; i < no; i++ {
		o := aRegSpec{Secret: 10 + i, TT: rapid.IntRange(0, 2).Draw(rt, "ott"), Phantom: rapid.SampledFrom([]int{0, 0, 0, 1}).Draw(rt, "ophantom"), V6: c.Reg.V6}
		if o.TT == 1 {
			o.PrefixID = rapid.SampledFrom(aPrefixIDs).Draw(rt, "oprefix")
		}
		c.Others = append(c.Others, o)
	}
	flightMax := 85
	if v.tt == 0 {
		flightMax = 32
	}
	set := map[int]bool{}
	for i, k := 0, rapid.SampledFrom([]int{0, 1, 2, 5}).Draw(rt, "ncuts"); i < k; i++ {
		set[rapid.IntRange(1, flightMax+8).Draw(rt, "cutpos")] = true
	}
	for p := range set {
		c.Cuts = append(c.Cuts, p)
	}
	sort.Ints(c.Cuts)
	hc := c04HistCase{C: c}
	hc.Mode = rapid.SampledFrom([]string{"add", "ingest", "ingest", "track-if-not-exists", "track"}).Draw(rt, "mode")
	if hc.Mode == "ingest" && c.Reg.V6 {
		// no liveness check for IPv6 phantoms: the gap of the real ingest path cannot be entered
		// from outside; the same order of events through the API calls the ingest worker makes
		hc.Mode = "track-if-not-exists"
	}
	hc.Before = c04HistGenEvents(rt, "before", 2, no)
	if hc.Mode != "add" {
		hc.Gap = c04HistGenEvents(rt, "gap", 3, no)
	}
	hc.After = c04HistGenEvents(rt, "after", 2, no)
	return hc
}

func TestVerif_C04_history(t *testing.T) {
	rec := vh.NewRec("C04", "history", "the registry state 'client registered, other registrations present' is reached through a history: events before the client's registration is known / while it is tracked but not yet valid (real ingestRegistration with the events inside its liveness check, or TrackRegIfNotExists|TrackRegistration ... AddRegistration) / while it is valid before the client connects; events = stray connection on the phantom, the client connecting too early, look-up of the phantom, another registration tracked / added / expired; then the client's genuine flight (transport variant x segmentation x early data x reply) judged like every C04 case. Enumerated: 4 (thorough: all 31) transport variants x 3 ways of validation x every single event kind in the gap and after validation; plus rapid-drawn histories. Non-trivial = an event on the client's phantom between tracking and the connection; distinct by case")
	defer rec.Flush()
	rec.Require("phantom-looked-up-while-tracked-not-valid", "other-registration-changed-while-tracked-not-valid",
		"phantom-looked-up-after-valid", "other-registration-changed-after-valid", "other-registration-expired-before-connect",
		"client-connected-too-early", "registered-by-ingest-with-events-during-liveness-check", "registered-by-track-then-add",
		"transport:Min", "transport:Prefix")
	defer aSilenceStdout()()
	e := c04Env(t)
	if p := vh.ReplayFile(); p != "" {
		var hc c04HistCase
		if _, _, err := vh.LoadReplay(p, &hc); err != nil {
			t.Fatal(err)
		}
		c04HistCheck(t, rec, e, hc)
		return
	}
	// enumerated front: every single event kind in the gap (and after validation) for every way of
	// validation
	vs := c04Variants()
	if !vh.Thorough() {
		vs = []c04Variant{vs[0], vs[1], vs[1+3*1+1], vs[1+3*4+2]}
	}
	others := []aRegSpec{{Secret: 12, TT: 0, Phantom: 0}, {Secret: 13, TT: 1, PrefixID: 1, Phantom: 0}}
	singles := [][]c04HistEvent{
		{{Op: "stray", Len: 40}},
		{{Op: "early-client", Len: 5}},
		{{Op: "lookup"}},
		{{Op: "track-other", Other: 0}},
		{{Op: "add-other", Other: 0}},
		{{Op: "expire-other", Other: 1}},
		{{Op: "track-other", Other: 0}, {Op: "stray", Len: 32}, {Op: "add-other", Other: 0}},
	}
	idx := 0
	for vi, v := range vs {
		w, err := e.aFlight(aSecret(1), aTT[v.tt], v.pid, v.flush)
		if err != nil {
			t.Fatalf("harness problem: %v", err)
		}
		fl := len(aJoin(w))
		for mi, mode := range []string{"ingest", "track-if-not-exists", "track"} {
			for si, evs := range singles {
				for _, where := range []string{"gap", "after"} {
					idx++
					if !vh.Mine(idx) {
						continue
					}
					hc := c04HistCase{Mode: mode, C: c04Case{Reg: aRegSpec{Secret: 1, TT: v.tt, PrefixID: v.pid}, Flush: v.flush, Early: 24, Reply: 16,
						DataKey: idx, Key: vi % 2, Others: others, Cuts: []int{1 + (idx*7)%(fl+23)}}}
					// the second other registration exists from the start so that it can expire
					hc.Before = []c04HistEvent{{Op: "add-other", Other: 1}}
					if where == "gap" {
						hc.Gap = evs
					} else {
						hc.After = evs
					}
					if (vi+mi+si)%4 == 3 && mode != "ingest" {
						hc.C.Reg.V6 = true
						hc.C.Others = append([]aRegSpec(nil), hc.C.Others...)
						for i := range hc.C.Others {
							hc.C.Others[i].V6 = true
						}
					}
					c04HistCheck(t, rec, e, hc)
				}
			}
		}
	}
	rapid.Check(t, func(rt *rapid.T) {
		c04HistCheck(rt, rec, e, c04HistGen(rt))
	})
}
