# Per-property check configuration for vcheck.
#
# unit keys: pkg (dir under /repo), moddir (module dir under /repo, "" = root), run (test regex),
#   subs (sub-check names expected to produce a record), race, rapid_checks (quick, thorough),
#   shards (quick, thorough), timeout (quick, thorough) seconds, fuzz [targets], fuzztime, tier_only.

LIB = "pkg/station/lib"

CHECKS = {
    "C08": {
        "title": "Registrations expire on schedule",
        "level": "exploration",
        "rule": "model-based testing of the registry: histories of track/validate/ingest/connect/advance/sweep are applied to the real RegistrationManager and to a reference lifetime model, compared after every step (tracked set, time-out record count, lookups). Exhaustive over short histories, rapid-generated for long ones. Non-trivial: a sweep that removes one entry while keeping another, or one secret registered under several transports on one phantom. Distinct = distinct history.",
        "assumptions": ["time is advanced by shifting the recorded registration times backwards (the code only uses time.Since(registrationTime))",
                        "entries whose expiry falls within the real time elapsed during a case are treated as ambiguous and not asserted"],
        "units": [
            {"pkg": LIB, "run": "^TestVerif_C08_", "subs": ["exhaustive", "random"],
             "rapid_checks": (400, 30000), "shards": (4, 16), "timeout": (300, 3000)},
        ],
    },
}
