# Per-property check configuration for vcheck.
#
# unit keys: pkg (dir under /repo), moddir (module dir under /repo, "" = root), run (test regex),
#   subs (sub-check names expected to produce a record), race, rapid_checks (quick, thorough),
#   shards (quick, thorough), timeout (quick, thorough) seconds, fuzz [targets], fuzztime, tier_only.

LIB = "pkg/station/lib"

CHECKS = {}


# Further properties live in checks.d/<ID>.json (same structure, one property per file).
import glob as _glob, json as _json, os as _os
for _f in sorted(_glob.glob(_os.path.join(_os.path.dirname(_os.path.abspath(__file__)), "checks.d", "*.json"))):
    _d = _json.load(open(_f))
    for _k in ("rapid_checks", "shards", "timeout"):
        for _u in _d["units"]:
            if isinstance(_u.get(_k), list):
                _u[_k] = tuple(_u[_k])
    CHECKS[_d["id"]] = _d
