#!/usr/bin/env python3
"""Regenerates MANIFEST.json from checks.py (single source of truth for the claimed checks)."""
import json, os, sys
sys.path.insert(0, os.path.dirname(os.path.abspath(__file__)))
from checks import CHECKS
READY = set(open(os.path.join(os.path.dirname(os.path.abspath(__file__)), "READY")).read().split())
BASE = "for m in . cmd/application cmd/registration-server util/station-debug; do (cd /repo/$m && GOFLAGS= go test -vet=off -count=1 -timeout 25m ./...); done"
m = {
 "version": 1,
 "setup_cmd": "./vcheck --setup",
 "hooks": {
  "guard": "none: no source change in /repo is needed; harness files are injected at build time with `go test -overlay` (new file names zz_verif_*.go only, no existing file is shadowed)",
  "enable": "vcheck builds each package under test with `go test -c -overlay /verif/.build/overlay_*.json` and GOWORK=/verif/go.work; without -overlay nothing of /verif is compiled",
  "baseline_off_cmd": BASE,
  "source_commits": [],
  "add_only": True,
 },
 "engines": [
  {"name": "vcheck", "path": "/verif/vcheck", "serves_properties": sorted(READY),
   "kind_free_text": "Python driver: builds in-package rapid/fuzz test binaries from /repo's working tree through a go overlay, runs them (sharded by seed), merges their evidence records, applies known_findings.json"},
  {"name": "vh", "path": "/verif/harness/vh", "serves_properties": sorted(READY),
   "kind_free_text": "Go helper: evidence recorder (class histogram, distinct non-trivial digests, samples), violation/replay files"},
 ],
 "checks": [],
 "not_applicable": [],
 "notes": "All checks are property-based tests (pgregory.net/rapid v1.3.0), exhaustive enumerations of small finite sub-spaces through the same oracles, or native go fuzz targets with the oracle inside the target. See DESIGN.md.",
}
ALL = ["C%02d" % i for i in range(1, 21)]
for pid in sorted(CHECKS):
    if pid not in READY:
        continue
    c = CHECKS[pid]
    m["checks"].append({
        "property_id": pid,
        "quick_cmd": "./vcheck %s --tier quick" % pid,
        "thorough_cmd": "./vcheck %s --tier thorough" % pid,
        "evidence_file": "/verif/evidence/%s.json" % pid,
        "replay_cmd_template": "./vcheck %s --replay {path}" % pid,
        "engine": "vcheck",
        "level_claimed": {"category": c["level"], "text": c.get("level_text", c["rule"]), "design_ref": "DESIGN.md §3 " + pid},
        "level_note": "; ".join(c.get("assumptions", [])) or "trusted base: Go toolchain, rapid, the harness in /verif/overlay",
        "technique": c.get("technique", "property-based testing (rapid) against a reference model"),
    })
for pid in ALL:
    if pid not in CHECKS or pid not in READY:
        m["not_applicable"].append({"property_id": pid, "reason": "check not built yet (work in progress; planned in DESIGN.md §3)"})
json.dump(m, open(os.path.join(os.path.dirname(os.path.abspath(__file__)), "MANIFEST.json"), "w"), indent=1)
print("MANIFEST.json:", len(m["checks"]), "checks")
