#!/bin/sh
# Regenerates the C01 golden vectors (derive.json, obfs4keys.json, dtlscreds.json) from the tree in
# $VERIF_REPO (default /repo). ONLY for the first creation of the vectors or after a *deliberate*,
# versioned change of the derivation: a golden mismatch means clients in the field no longer meet an
# upgraded station. The generators refuse to write a record on which station, client and the
# independent reference disagree. Output is deterministic and date independent.
set -e
VERIF=$(cd "$(dirname "$0")/../.." && pwd)
DST=${1:-$VERIF/golden/C01}
cd "$VERIF"
./vcheck C01 >/dev/null 2>&1 || true      # (re)builds the test binaries; its verdict is irrelevant here
mkdir -p "$VERIF/.work/C01gen" && cd "$VERIF/.work/C01gen"
for b in "$VERIF"/.build/C01_pkg_station_lib.test "$VERIF"/.build/C01_pkg_transports_wrapping_obfs4.test "$VERIF"/.build/C01_pkg_dtls.test; do
    VERIF_C01_GOLDEN_WRITE="$DST" VERIF_OUT="$VERIF/.work/C01gen/out" "$b" -test.run '^TestVerifGen_C01_' -test.count=1 -test.v 2>&1 | grep -E '^(---|\s+zz_verif|FAIL|ok|PASS)' || true
done
ls -l "$DST"
