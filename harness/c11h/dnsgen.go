package c11h

// Wire-level generator for hostile DNS messages (used by the dns and responder sub-checks): a
// message is assembled from drawn parts — header with true or lying counts, names made of labels,
// reserved label types and compression pointers (backwards, forwards, to themselves, in cycles, in
// long chains, out of range), questions, resource records with true or lying RDLENGTH, OPT records, record data that is drawn
// bytes or a sequence of EDNS options / TXT character-strings whose last element fits, overruns the
// data or is cut — and then possibly truncated or extended.

import (
	"encoding/binary"

	"pgregory.net/rapid"
)

type dnsBuilder struct {
	rt    *rapid.T
	b     []byte
	names []int // offsets where a name starts
}

func (d *dnsBuilder) u16(v uint16) { d.b = binary.BigEndian.AppendUint16(d.b, v) }
func (d *dnsBuilder) u32(v uint32) { d.b = binary.BigEndian.AppendUint32(d.b, v) }

// name appends a name: base labels (may be nil) preceded / replaced by drawn hostile parts.
func (d *dnsBuilder) name(label string, base [][]byte) {
	rt := d.rt
	start := len(d.b)
	d.names = append(d.names, start)
	kind := rapid.SampledFrom([]string{"base", "base", "base", "base", "base", "base", "base", "labels", "labels", "ptr-back", "ptr-back", "ptr-self", "ptr-fwd", "ptr-cycle", "ptr-chain", "ptr-label-loop", "reserved", "unterminated", "root", "long"}).Draw(rt, label+"_namekind")
	writeLabels := func(ls [][]byte) {
		for _, l := range ls {
			if len(l) > 63 {
				l = l[:63]
			}
			d.b = append(d.b, byte(len(l)))
			d.b = append(d.b, l...)
		}
	}
	switch kind {
	case "base":
		writeLabels(base)
		d.b = append(d.b, 0)
	case "labels":
		n := rapid.IntRange(0, 5).Draw(rt, label+"_nlabels")
		for i := 0; i < n; i++ {
			writeLabels([][]byte{Bytes(rt, label+"_label", []int{1, 2, 8, 62, 63})})
		}
		writeLabels(base)
		d.b = append(d.b, 0)
	case "ptr-back":
		if rapid.Bool().Draw(rt, label+"_prefixlabel") {
			writeLabels([][]byte{[]byte("x")})
		}
		target := 12
		if len(d.names) > 1 {
			target = d.names[rapid.IntRange(0, len(d.names)-2).Draw(rt, label+"_target")]
		}
		d.u16(0xc000 | uint16(target&0x3fff))
	case "ptr-self":
		d.u16(0xc000 | uint16(start&0x3fff))
	case "ptr-fwd":
		d.u16(0xc000 | uint16((start+rapid.SampledFrom([]int{2, 3, 4, 10, 100, 0x3fff - start}).Draw(rt, label+"_fwd"))&0x3fff))
	case "ptr-cycle":
		// two pointers pointing at each other
		d.u16(0xc000 | uint16((start+2)&0x3fff))
		d.u16(0xc000 | uint16(start&0x3fff))
	case "ptr-chain":
		// a chain of n pointers, each to the next, ending in a real name
		n := rapid.SampledFrom([]int{2, 9, 10, 11, 12, 40, 126, 127, 128, 200}).Draw(rt, label+"_chain")
		for i := 0; i < n; i++ {
			d.u16(0xc000 | uint16((len(d.b)+2)&0x3fff))
		}
		writeLabels(base)
		d.b = append(d.b, 0)
	case "ptr-label-loop":
		// a label followed by a pointer back to that label: every round adds a label
		writeLabels([][]byte{Bytes(rt, label+"_looplabel", []int{1, 20, 63})})
		d.u16(0xc000 | uint16(start&0x3fff))
	case "reserved":
		d.b = append(d.b, rapid.SampledFrom([]byte{0x40, 0x7f, 0x80, 0xbf}).Draw(rt, label+"_reserved"))
		d.b = append(d.b, Bytes(rt, label+"_after", []int{0, 1, 10})...)
	case "unterminated":
		writeLabels(base)
		writeLabels([][]byte{[]byte("tail")})
	case "root":
		d.b = append(d.b, 0)
	case "long":
		// 255 octets and more
		n := rapid.SampledFrom([]int{3, 4, 5, 40}).Draw(rt, label+"_nlong")
		for i := 0; i < n; i++ {
			writeLabels([][]byte{Bytes(rt, label+"_longlabel", []int{63, 62, 61})})
		}
		writeLabels(base)
		d.b = append(d.b, 0)
	}
}

// EDNSOptionCodes are option codes resolvers really attach (NSID, client subnet, cookie, keepalive,
// padding, extended error) and codes nobody assigned.
var EDNSOptionCodes = []uint16{10, 10, 12, 8, 3, 11, 15, 0, 1, 0xfde9, 0xffff}

// EDNSOption is the wire form of one {OPTION-CODE, OPTION-LENGTH, OPTION-DATA} triple whose length
// field says `declared`, whatever len(data) is.
func EDNSOption(code uint16, declared int, data []byte) []byte {
	b := binary.BigEndian.AppendUint16(nil, code)
	b = binary.BigEndian.AppendUint16(b, uint16(declared))
	return append(b, data...)
}

// EDNSOptions draws the RDATA of an OPT record the way RFC 6891 section 6.1.2 lays it out: 0-3
// well-formed options (known and unknown codes, data lengths around what the known options expect)
// and then, in two thirds of the draws, a malformed end: a last option whose OPTION-LENGTH is larger
// than the data that follows (by 1..6 bytes — i.e. by less than, exactly and more than the size of
// an option header — or by a lot), smaller than it (the rest looks like a cut-off header), or 1-3
// bytes of an option header.
func EDNSOptions(rt *rapid.T, label string) []byte {
	var out []byte
	dataLens := []int{0, 0, 1, 2, 3, 4, 7, 8, 9, 16, 24, 32, 40, 300}
	n := rapid.IntRange(0, 3).Draw(rt, label+"_nopts")
	for i := 0; i < n; i++ {
		data := Bytes(rt, label+"_optdata", dataLens)
		out = append(out, EDNSOption(rapid.SampledFrom(EDNSOptionCodes).Draw(rt, label+"_optcode"), len(data), data)...)
	}
	switch rapid.SampledFrom([]string{"none", "none", "none", "overrun", "overrun", "overrun", "overrun-far", "short", "header-cut"}).Draw(rt, label+"_optend") {
	case "overrun":
		data := Bytes(rt, label+"_lastdata", dataLens)
		out = append(out, EDNSOption(rapid.SampledFrom(EDNSOptionCodes).Draw(rt, label+"_lastcode"), len(data)+rapid.IntRange(1, 6).Draw(rt, label+"_over"), data)...)
	case "overrun-far":
		data := Bytes(rt, label+"_lastdata", dataLens)
		decl := rapid.SampledFrom([]int{len(data) + 7, len(data) + 100, 0x7fff, 0x8000, 0xffff}).Draw(rt, label+"_far")
		out = append(out, EDNSOption(rapid.SampledFrom(EDNSOptionCodes).Draw(rt, label+"_lastcode"), decl, data)...)
	case "short":
		data := Bytes(rt, label+"_lastdata", []int{1, 2, 3, 4, 8, 9})
		out = append(out, EDNSOption(rapid.SampledFrom(EDNSOptionCodes).Draw(rt, label+"_lastcode"), rapid.IntRange(0, len(data)-1).Draw(rt, label+"_declared"), data)...)
	case "header-cut":
		out = append(out, Bytes(rt, label+"_cut", []int{1, 2, 3})...)
	}
	return out
}

// TXTStrings draws RDATA made of <character-string>s (one length octet + that many octets); the
// last length octet may promise more or fewer octets than follow.
func TXTStrings(rt *rapid.T, label string) []byte {
	var out []byte
	n := rapid.IntRange(0, 3).Draw(rt, label+"_nstr")
	for i := 0; i < n; i++ {
		s := Bytes(rt, label+"_str", []int{0, 1, 16, 254, 255})
		out = append(append(out, byte(len(s))), s...)
	}
	switch rapid.IntRange(0, 3).Draw(rt, label+"_strend") {
	case 1:
		s := Bytes(rt, label+"_laststr", []int{0, 1, 16, 200})
		out = append(append(out, byte(len(s)+rapid.SampledFrom([]int{1, 2, 55}).Draw(rt, label+"_strover"))), s...)
	case 2:
		s := Bytes(rt, label+"_laststr", []int{1, 2, 16})
		out = append(append(out, byte(len(s)-1)), s...)
	}
	return out
}

// rdata draws record data: drawn bytes, or bytes structured as EDNS options / TXT strings (the OPT
// record mostly carries options, other records mostly bytes or strings).
func rdata(rt *rapid.T, label string, opt bool) []byte {
	kinds := []string{"bytes", "bytes", "txt", "options"}
	if opt {
		kinds = []string{"bytes", "options", "options", "options", "txt"}
	}
	switch rapid.SampledFrom(kinds).Draw(rt, label+"_rdatakind") {
	case "options":
		return EDNSOptions(rt, label)
	case "txt":
		return TXTStrings(rt, label)
	}
	return Bytes(rt, label+"_rdata", []int{0, 0, 1, 4, 16, 255, 256, 300})
}

// GenDNSWire draws one datagram. domain is the responder's base domain (labels); payload is the
// label sequence a genuine client would put in front of it (may be nil).
func GenDNSWire(rt *rapid.T, domain, payload [][]byte) []byte {
	d := &dnsBuilder{rt: rt}
	qname := append(append([][]byte{}, payload...), domain...)
	nq := rapid.SampledFrom([]int{1, 1, 1, 1, 0, 2, 3}).Draw(rt, "nq")
	nan := rapid.SampledFrom([]int{0, 0, 0, 1, 2}).Draw(rt, "nan")
	nns := rapid.SampledFrom([]int{0, 0, 0, 1}).Draw(rt, "nns")
	nar := rapid.SampledFrom([]int{1, 1, 1, 0, 2, 3}).Draw(rt, "nar")
	d.u16(uint16(rapid.Uint16().Draw(rt, "id")))
	flags := rapid.SampledFrom([]uint16{0x0100, 0x0100, 0x0100, 0x0000, 0x8000, 0x8180, 0x0900, 0x7800, 0x010f, 0xffff}).Draw(rt, "flags")
	d.u16(flags)
	lie := func(label string, n int) uint16 {
		switch rapid.IntRange(0, 11).Draw(rt, label) {
		case 9:
			return uint16(n + 1)
		case 10:
			return 0xffff
		case 11:
			if n > 0 {
				return uint16(n - 1)
			}
		}
		return uint16(n)
	}
	d.u16(lie("qdcount", nq))
	d.u16(lie("ancount", nan))
	d.u16(lie("nscount", nns))
	d.u16(lie("arcount", nar))
	for i := 0; i < nq; i++ {
		d.name("q", qname)
		d.u16(rapid.SampledFrom([]uint16{16, 16, 16, 16, 1, 2, 28, 41, 255, 0, 0xffff}).Draw(rt, "qtype"))
		d.u16(rapid.SampledFrom([]uint16{1, 1, 1, 3, 255, 0, 4096}).Draw(rt, "qclass"))
	}
	rr := func(label string, opt bool) {
		if opt {
			if rapid.IntRange(0, 5).Draw(rt, label+"_optname") == 5 {
				d.name(label, domain)
			} else {
				d.b = append(d.b, 0)
			}
			d.u16(41)
			d.u16(rapid.SampledFrom([]uint16{4096, 4096, 1232, 1231, 512, 511, 0, 0xffff}).Draw(rt, label+"_size"))
			d.u32(rapid.SampledFrom([]uint32{0, 0, 0, 0x00010000, 0x00ff0000, 0xff000000, 0x8000, ^uint32(0)}).Draw(rt, label+"_ttl"))
		} else {
			d.name(label, domain)
			d.u16(rapid.SampledFrom([]uint16{16, 1, 41, 0, 0xffff}).Draw(rt, label+"_type"))
			d.u16(rapid.SampledFrom([]uint16{1, 0, 4096}).Draw(rt, label+"_class"))
			d.u32(rapid.Uint32().Draw(rt, label+"_ttl"))
		}
		data := rdata(rt, label, opt)
		switch rapid.IntRange(0, 9).Draw(rt, label+"_rdlen") {
		case 8:
			d.u16(uint16(len(data) + 1))
		case 9:
			d.u16(0xffff)
		default:
			d.u16(uint16(len(data)))
		}
		d.b = append(d.b, data...)
	}
	for i := 0; i < nan; i++ {
		rr("an", false)
	}
	for i := 0; i < nns; i++ {
		rr("ns", false)
	}
	for i := 0; i < nar; i++ {
		rr("ar", rapid.IntRange(0, 4).Draw(rt, "ar_isopt") != 4)
	}
	out := d.b
	switch rapid.IntRange(0, 9).Draw(rt, "finish") {
	case 7:
		out = out[:rapid.IntRange(0, len(out)).Draw(rt, "truncate")]
	case 8:
		out = append(out, Bytes(rt, "trailing", []int{1, 2, 12})...)
	case 9:
		out = Mutate(rt, "dnsmut", out)
	}
	if len(out) > 4096 {
		out = out[:4096] // the responder's receive buffer
	}
	return out
}

// DNSHostileSeeds are hostile constant datagrams: compression pointer loops, chains, label loops,
// lying counts, reserved label types, boundary sizes.
func DNSHostileSeeds() [][]byte {
	hdr := func(qd, an, ns, ar uint16) []byte {
		b := []byte{0x12, 0x34, 0x01, 0x00}
		for _, v := range []uint16{qd, an, ns, ar} {
			b = binary.BigEndian.AppendUint16(b, v)
		}
		return b
	}
	tail := []byte{0x00, 0x10, 0x00, 0x01}
	var out [][]byte
	out = append(out,
		[]byte{},
		hdr(0, 0, 0, 0),
		hdr(1, 0, 0, 0),
		append(append(hdr(1, 0, 0, 0), 0xc0, 0x0c), tail...),                                                                    // pointer to itself
		append(append(hdr(1, 0, 0, 0), 0xc0, 0x0e, 0xc0, 0x0c), tail...),                                                        // two-pointer cycle
		append(append(hdr(1, 0, 0, 0), 0x01, 'a', 0xc0, 0x0c), tail...),                                                         // label + pointer back to the label
		append(append(hdr(1, 0, 0, 0), 0x3f), make([]byte, 63)...),                                                              // label runs to the end
		append(append(hdr(1, 0, 0, 0), 0xc0, 0xff), tail...),                                                                    // pointer out of range
		append(append(hdr(1, 0, 0, 0), 0xff, 0xff), tail...),                                                                    // pointer to 0x3fff
		append(append(hdr(1, 0, 0, 0), 0x40, 0x00), tail...),                                                                    // reserved label type
		append(append(hdr(0xffff, 0xffff, 0xffff, 0xffff), 0x00), tail...),                                                      // lying counts
		append(append(hdr(0, 0, 0, 1), 0x00, 0x00, 0x29, 0x10, 0x00, 0, 0, 0, 0), 0xff, 0xff),                                   // OPT with RDLENGTH 65535 and no data
		append(hdr(0, 0, 0, 2), 0x00, 0x00, 0x29, 0x10, 0x00, 0, 0, 0, 0, 0, 0, 0x00, 0x00, 0x29, 0x10, 0x00, 0, 0, 0, 0, 0, 0), // two OPT records
		append(hdr(0, 0, 0, 1), 0x00, 0x00, 0x29, 0x10, 0x00, 0, 1, 0, 0, 0, 0),                                                 // EDNS version 1
	)
	// chain of 11 and of 200 pointers, then the root
	for _, n := range []int{10, 11, 200} {
		b := hdr(1, 0, 0, 0)
		for i := 0; i < n; i++ {
			b = binary.BigEndian.AppendUint16(b, 0xc000|uint16(len(b)+2))
		}
		b = append(append(b, 0x00), tail...)
		out = append(out, b)
	}
	// a name of exactly 255 and of 256 octets
	for _, last := range []int{61, 62} {
		b := hdr(1, 0, 0, 0)
		for i := 0; i < 3; i++ {
			b = append(append(b, 63), make([]byte, 63)...)
		}
		b = append(append(b, byte(last)), make([]byte, last)...)
		b = append(append(b, 0x00), tail...)
		out = append(out, b)
	}
	return out
}
