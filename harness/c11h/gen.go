package c11h

// Structured generators for the registration protobufs: every field is drawn present / absent /
// invalid so that generated messages parse and reach the logic behind the parser, which random
// bytes practically never do. All randomness comes from rapid draws.

import (
	"encoding/binary"
	"strings"

	pb "github.com/refraction-networking/conjure/proto"
	"google.golang.org/protobuf/proto"
	"google.golang.org/protobuf/types/known/anypb"
	"pgregory.net/rapid"
)

// Dom describes the value domain of a target (what "known" generations / library versions are).
type Dom struct {
	Gens []uint32 // phantom generations the component under test has subnets for
}

func chance(rt *rapid.T, label string, num, den int) bool {
	return rapid.IntRange(0, den-1).Draw(rt, label) < num
}

// Bytes draws a byte string whose length comes from lens (hostile lengths) and whose content is one
// of: zeros, 0xff, counting pattern, drawn bytes.
func Bytes(rt *rapid.T, label string, lens []int) []byte {
	n := rapid.SampledFrom(lens).Draw(rt, label+"_len")
	out := make([]byte, n)
	switch rapid.IntRange(0, 3).Draw(rt, label+"_fill") {
	case 0:
	case 1:
		for i := range out {
			out[i] = 0xff
		}
	case 2:
		seed := rapid.Byte().Draw(rt, label+"_seed")
		for i := range out {
			out[i] = seed + byte(i*7)
		}
	default:
		if n > 0 {
			m := n
			if m > 24 {
				m = 24
			}
			head := rapid.SliceOfN(rapid.Byte(), m, m).Draw(rt, label+"_bytes")
			for i := range out {
				out[i] = head[i%m] ^ byte(i/m)
			}
		}
	}
	return out
}

var (
	secretLens = []int{0, 1, 7, 8, 15, 16, 31, 32, 32, 32, 32, 33, 64}
	addrLens   = []int{0, 1, 3, 4, 4, 4, 5, 15, 16, 16, 16, 17, 32}
	u32Edge    = []uint32{0, 1, 2, 3, 4, 5, 6, 22, 443, 1023, 1024, 65535, 65536, 1 << 31, ^uint32(0)}
)

// Addr draws an address-like byte string: valid v4 (4 bytes), v4-in-v6, v6, zeros, wrong lengths.
func Addr(rt *rapid.T, label string) []byte {
	switch rapid.IntRange(0, 7).Draw(rt, label+"_kind") {
	case 0:
		return []byte{198, 51, 100, rapid.Byte().Draw(rt, label+"_b")}
	case 1:
		return []byte{0, 0, 0, 0, 0, 0, 0, 0, 0, 0, 0xff, 0xff, 203, 0, 113, rapid.Byte().Draw(rt, label+"_b")}
	case 2:
		return []byte{0x20, 0x01, 0x0d, 0xb8, 0, 0, 0, 0, 0, 0, 0, 0, 0, 0, 0, rapid.Byte().Draw(rt, label+"_b")}
	case 3:
		return make([]byte, 16)
	case 4:
		return make([]byte, 4)
	case 5:
		return []byte{127, 0, 0, 1}
	default:
		return Bytes(rt, label, addrLens)
	}
}

func optU32(rt *rapid.T, label string, vals []uint32) *uint32 {
	if chance(rt, label+"_absent", 1, 6) {
		return nil
	}
	if chance(rt, label+"_any", 1, 8) {
		return proto.Uint32(rapid.Uint32().Draw(rt, label+"_v"))
	}
	return proto.Uint32(rapid.SampledFrom(vals).Draw(rt, label))
}

func optBool(rt *rapid.T, label string, pTrue, pAbsent int) *bool {
	k := rapid.IntRange(0, 9).Draw(rt, label)
	switch {
	case k < pAbsent:
		return nil
	case k < pAbsent+pTrue:
		return proto.Bool(true)
	}
	return proto.Bool(false)
}

// GenAddrMsg draws a pb.Addr (DTLS source address): absent, or IP absent / of any length and port
// absent / in or out of the 16-bit range.
func GenAddrMsg(rt *rapid.T, label string) *pb.Addr {
	if chance(rt, label+"_absent", 1, 4) {
		return nil
	}
	a := &pb.Addr{}
	if !chance(rt, label+"_noip", 1, 5) {
		a.IP = Addr(rt, label+"_ip")
	}
	a.Port = optU32(rt, label+"_port", []uint32{0, 1, 1024, 41245, 65535, 65536, 1 << 31, ^uint32(0)})
	return a
}

var i32Edge = []int32{-2, -1, 0, 1, 2, 3, 4, 5, 6, 7, 8, 9, 10, 11, 100, 1<<31 - 1, -1 << 31}

// GenParamsMsg draws a transport parameter message of the named kind ("generic", "prefix", "dtls").
func GenParamsMsg(rt *rapid.T, label, kind string) proto.Message {
	switch kind {
	case "prefix":
		m := &pb.PrefixTransportParams{}
		if !chance(rt, label+"_noid", 1, 6) {
			m.PrefixId = proto.Int32(rapid.SampledFrom(i32Edge).Draw(rt, label+"_id"))
		}
		if chance(rt, label+"_hasprefix", 1, 4) {
			m.Prefix = Bytes(rt, label+"_prefix", []int{0, 1, 5, 16, 64, 300})
		}
		if chance(rt, label+"_hasflush", 1, 3) {
			m.CustomFlushPolicy = proto.Int32(rapid.SampledFrom(i32Edge).Draw(rt, label+"_flush"))
		}
		m.RandomizeDstPort = optBool(rt, label+"_rand", 4, 2)
		return m
	case "dtls":
		m := &pb.DTLSTransportParams{}
		m.SrcAddr4 = GenAddrMsg(rt, label+"_a4")
		m.SrcAddr6 = GenAddrMsg(rt, label+"_a6")
		m.RandomizeDstPort = optBool(rt, label+"_rand", 4, 2)
		m.Unordered = optBool(rt, label+"_unord", 3, 4)
		return m
	default:
		return &pb.GenericTransportParams{RandomizeDstPort: optBool(rt, label+"_rand", 4, 2)}
	}
}

var paramKinds = []string{"generic", "prefix", "dtls"}

func typeURL(kind string) string {
	switch kind {
	case "prefix":
		return "type.googleapis.com/proto.PrefixTransportParams"
	case "dtls":
		return "type.googleapis.com/proto.DTLSTransportParams"
	}
	return "type.googleapis.com/proto.GenericTransportParams"
}

// GenAny draws a transport_params Any. `want` is the kind the transport expects ("" = none in
// particular): mostly the matching message, sometimes another kind's (mismatched parameter type);
// the type URL is full / empty (as the DNS registrar sends it) / legacy "tapdance." / another
// message's / garbage; the value is the marshalled message, possibly truncated, extended or replaced.
func GenAny(rt *rapid.T, label, want string) *anypb.Any {
	if chance(rt, label+"_absent", 1, 6) {
		return nil
	}
	kind := want
	if kind == "" || chance(rt, label+"_mismatch", 1, 5) {
		kind = rapid.SampledFrom(paramKinds).Draw(rt, label+"_kind")
	}
	val, err := proto.Marshal(GenParamsMsg(rt, label, kind))
	if err != nil {
		val = nil
	}
	a := &anypb.Any{Value: val}
	switch rapid.IntRange(0, 11).Draw(rt, label+"_url") {
	case 0, 1, 2, 3, 4:
		a.TypeUrl = typeURL(kind)
	case 5, 6:
		a.TypeUrl = ""
	case 7:
		a.TypeUrl = strings.Replace(typeURL(kind), "proto.", "tapdance.", 1)
	case 8:
		a.TypeUrl = typeURL(rapid.SampledFrom(paramKinds).Draw(rt, label+"_otherurl"))
	case 9:
		a.TypeUrl = "type.googleapis.com/proto.ClientToStation"
	case 10:
		a.TypeUrl = rapid.SampledFrom([]string{"/", "proto.", "tapdance.tapdance.", "type.googleapis.com/", "\xff\xfe", "type.googleapis.com/google.protobuf.Any"}).Draw(rt, label+"_badurl")
	default:
		a.TypeUrl = typeURL(want)
	}
	switch rapid.IntRange(0, 9).Draw(rt, label+"_val") {
	case 0:
		a.Value = Mutate(rt, label+"_mut", a.Value)
	case 1:
		a.Value = nil
	case 2:
		a.Value = Bytes(rt, label+"_garbage", []int{1, 2, 9, 40})
	}
	return a
}

// KindFor returns the parameter kind the station transports expect for a transport type.
func KindFor(tt int32) string {
	switch pb.TransportType(tt) {
	case pb.TransportType_Prefix:
		return "prefix"
	case pb.TransportType_DTLS:
		return "dtls"
	case pb.TransportType_Min, pb.TransportType_Obfs4:
		return "generic"
	}
	return ""
}

var coverts = []string{"192.0.2.1:443", "192.0.2.1:443", "[2001:db8::1]:443", ":443", "192.0.2.1", "192.0.2.1:", "a:b:c", "localhost:80",
	"verif-c11.invalid:443", "192.0.2.1:99999", "192.0.2.1:-1", "[::1]:1", "127.0.0.1:1", "\xff\xfe:1", "[fe80::1%eth0]:443", "", " 192.0.2.1:443",
	"0.0.0.0:0", "[::ffff:10.0.0.1]:22", strings.Repeat("a", 300) + ":443"}

var transportsEdge = []int32{0, 1, 1, 1, 2, 2, 3, 3, 4, 4, 4, 5, 6, 9, 99, 100, -1, 1<<31 - 1}

// GenC2S draws a ClientToStation, field by field.
func GenC2S(rt *rapid.T, label string, d Dom) *pb.ClientToStation {
	c := &pb.ClientToStation{}
	gens := append([]uint32{0, 1, ^uint32(0)}, d.Gens...)
	gens = append(gens, d.Gens...)
	gens = append(gens, d.Gens...)
	c.DecoyListGeneration = optU32(rt, label+"_gen", gens)
	c.ClientLibVersion = optU32(rt, label+"_libver", []uint32{0, 1, 2, 3, 3, 4, 4, 4, 5, 6, 100, ^uint32(0)})
	c.ProtocolVersion = optU32(rt, label+"_proto", u32Edge)
	if chance(rt, label+"_hastr", 1, 8) {
		c.StateTransition = pb.C2S_Transition(rapid.SampledFrom([]int32{0, 1, 2, 3, 4, 11, 99, -1}).Draw(rt, label+"_tr")).Enum()
	}
	if chance(rt, label+"_hassync", 1, 8) {
		c.UploadSync = proto.Uint64(rapid.Uint64().Draw(rt, label+"_sync"))
	}
	c.DisableRegistrarOverrides = optBool(rt, label+"_dis", 3, 4)
	if chance(rt, label+"_hasfailed", 1, 8) {
		c.FailedDecoys = rapid.SliceOfN(rapid.SampledFrom([]string{"", "a.example", "\xff", strings.Repeat("x", 70)}), 0, 4).Draw(rt, label+"_failed")
	}
	if chance(rt, label+"_hasstats", 1, 8) {
		c.Stats = &pb.SessionStats{FailedDecoysAmount: optU32(rt, label+"_st1", u32Edge), TotalTimeToConnect: optU32(rt, label+"_st2", u32Edge)}
	}
	var tt int32
	hasTT := !chance(rt, label+"_nott", 1, 8)
	if hasTT {
		tt = rapid.SampledFrom(transportsEdge).Draw(rt, label+"_tt")
		c.Transport = pb.TransportType(tt).Enum()
	}
	c.TransportParams = GenAny(rt, label+"_params", KindFor(tt))
	if !chance(rt, label+"_nocovert", 1, 10) {
		c.CovertAddress = proto.String(rapid.SampledFrom(coverts).Draw(rt, label+"_covert"))
	}
	if chance(rt, label+"_hasmask", 1, 6) {
		c.MaskedDecoyServerName = proto.String(rapid.SampledFrom([]string{"", "example.com", "\xff", strings.Repeat("m", 260)}).Draw(rt, label+"_mask"))
	}
	c.V4Support = optBool(rt, label+"_v4", 6, 2)
	c.V6Support = optBool(rt, label+"_v6", 5, 2)
	if !chance(rt, label+"_noflags", 1, 4) {
		c.Flags = &pb.RegistrationFlags{
			UploadOnly:  optBool(rt, label+"_f1", 2, 5),
			DarkDecoy:   optBool(rt, label+"_f2", 2, 5),
			ProxyHeader: optBool(rt, label+"_f3", 3, 4),
			Use_TIL:     optBool(rt, label+"_f4", 2, 5),
			Prescanned:  optBool(rt, label+"_f5", 3, 4),
		}
	}
	if chance(rt, label+"_haspad", 1, 8) {
		c.Padding = Bytes(rt, label+"_pad", []int{0, 1, 100, 1000})
	}
	return c
}

// GenRegResp draws a RegistrationResponse (the registrar-only part of a C2SWrapper, which a hostile
// client or a registrar may fill with anything).
func GenRegResp(rt *rapid.T, label string) *pb.RegistrationResponse {
	r := &pb.RegistrationResponse{}
	if !chance(rt, label+"_no4", 1, 3) {
		switch rapid.IntRange(0, 3).Draw(rt, label+"_v4kind") {
		case 0:
			r.Ipv4Addr = proto.Uint32(0)
		case 1:
			r.Ipv4Addr = proto.Uint32(binary.BigEndian.Uint32([]byte{192, 122, 190, rapid.Byte().Draw(rt, label+"_v4b")}))
		default:
			r.Ipv4Addr = proto.Uint32(rapid.Uint32().Draw(rt, label+"_v4"))
		}
	}
	if !chance(rt, label+"_no6", 1, 3) {
		switch rapid.IntRange(0, 2).Draw(rt, label+"_v6kind") {
		case 0:
			r.Ipv6Addr = []byte{0x20, 0x01, 0x48, 0xa8, 0x68, 0x7f, 0, 1, 0, 0, 0, 0, 0, 0, 0, rapid.Byte().Draw(rt, label+"_v6b")}
		default:
			r.Ipv6Addr = Bytes(rt, label+"_v6", addrLens)
		}
	}
	r.DstPort = optU32(rt, label+"_port", u32Edge)
	if chance(rt, label+"_hasrand", 1, 6) {
		r.ServerRandom = Bytes(rt, label+"_srvrand", []int{0, 1, 32})
	}
	if chance(rt, label+"_haserr", 1, 6) {
		r.Error = proto.String(rapid.SampledFrom([]string{"", "err", "\xff"}).Draw(rt, label+"_err"))
	}
	if chance(rt, label+"_hascc", 1, 6) {
		r.ClientConf = &pb.ClientConf{Generation: optU32(rt, label+"_ccgen", u32Edge)}
	}
	if chance(rt, label+"_hasparams", 1, 2) {
		r.TransportParams = GenAny(rt, label+"_params", rapid.SampledFrom([]string{"", "generic", "prefix", "dtls"}).Draw(rt, label+"_pkind"))
	}
	r.PhantomsSupportPortRand = optBool(rt, label+"_psr", 4, 3)
	return r
}

// GenWrapper draws a C2SWrapper, field by field (every sub-message may be absent).
func GenWrapper(rt *rapid.T, d Dom) *pb.C2SWrapper {
	w := &pb.C2SWrapper{}
	if !chance(rt, "nosecret", 1, 8) {
		w.SharedSecret = Bytes(rt, "secret", secretLens)
	}
	if !chance(rt, "nopayload", 1, 6) {
		w.RegistrationPayload = GenC2S(rt, "c2s", d)
	}
	if !chance(rt, "nosource", 1, 3) {
		w.RegistrationSource = pb.RegistrationSource(rapid.SampledFrom([]int32{0, 1, 1, 2, 2, 3, 4, 4, 5, 6, 6, 7, 99, -1}).Draw(rt, "source")).Enum()
	}
	if !chance(rt, "noregaddr", 1, 3) {
		w.RegistrationAddress = Addr(rt, "regaddr")
	}
	if chance(rt, "hasdecoyaddr", 1, 3) {
		w.DecoyAddress = Addr(rt, "decoyaddr")
	}
	if chance(rt, "hasresp", 1, 2) {
		w.RegistrationResponse = GenRegResp(rt, "rr")
	}
	if chance(rt, "hasrrbytes", 1, 6) {
		w.RegRespBytes = Bytes(rt, "rrbytes", []int{0, 1, 20})
		w.RegRespSignature = Bytes(rt, "rrsig", []int{0, 1, 63, 64, 65})
	}
	return w
}

// Mutate applies 0-3 byte-level edits (bit flip, hostile byte, truncate, delete, duplicate, insert an
// over-long varint / length prefix, append garbage).
func Mutate(rt *rapid.T, label string, b []byte) []byte {
	out := append([]byte(nil), b...)
	n := rapid.IntRange(1, 3).Draw(rt, label+"_n")
	for i := 0; i < n; i++ {
		op := rapid.IntRange(0, 7).Draw(rt, label+"_op")
		if len(out) == 0 {
			op = 7
		}
		switch op {
		case 0:
			p := rapid.IntRange(0, len(out)*8-1).Draw(rt, label+"_bit")
			out[p/8] ^= 1 << uint(p%8)
		case 1:
			p := rapid.IntRange(0, len(out)-1).Draw(rt, label+"_pos")
			out[p] = rapid.SampledFrom([]byte{0, 1, 0x7f, 0x80, 0xff, 0xc0}).Draw(rt, label+"_byte")
		case 2:
			out = out[:rapid.IntRange(0, len(out)-1).Draw(rt, label+"_cut")]
		case 3:
			p := rapid.IntRange(0, len(out)-1).Draw(rt, label+"_from")
			q := rapid.IntRange(p, len(out)).Draw(rt, label+"_to")
			out = append(append([]byte(nil), out[:p]...), out[q:]...)
		case 4:
			p := rapid.IntRange(0, len(out)-1).Draw(rt, label+"_from")
			q := rapid.IntRange(p, len(out)).Draw(rt, label+"_to")
			if q-p > 64 {
				q = p + 64
			}
			dup := append([]byte(nil), out[p:q]...)
			out = append(append(append([]byte(nil), out[:q]...), dup...), out[q:]...)
		case 5:
			p := rapid.IntRange(0, len(out)).Draw(rt, label+"_at")
			ins := rapid.SampledFrom([][]byte{
				{0xff, 0xff, 0xff, 0xff, 0xff, 0xff, 0xff, 0xff, 0xff, 0x01},
				{0xff, 0xff, 0xff, 0xff, 0x0f},
				{0x1a, 0xff, 0xff, 0xff, 0xff, 0x07}, // field 3 (registration_payload), length 2^31-1
				{0x1a, 0x00},                         // field 3, empty sub-message
				{0x42, 0x00},                         // field 8 (registration_response), empty
				{0x0b}, {0x0c},                       // start / end group
				{0x00},
			}).Draw(rt, label+"_ins")
			out = append(append(append([]byte(nil), out[:p]...), ins...), out[p:]...)
		case 6:
			p := rapid.IntRange(0, len(out)-1).Draw(rt, label+"_pos")
			out[p] = rapid.Byte().Draw(rt, label+"_anybyte")
		default:
			out = append(out, rapid.SliceOfN(rapid.Byte(), 1, 12).Draw(rt, label+"_tail")...)
		}
	}
	return out
}

// GenWrapperBytes draws the wire form of a registration message: mostly a structured C2SWrapper
// (kind "structured"), sometimes with byte-level edits ("mutated") and rarely raw bytes ("raw").
func GenWrapperBytes(rt *rapid.T, d Dom) (msg []byte, kind string) {
	switch k := rapid.IntRange(0, 19).Draw(rt, "wire_kind"); {
	case k == 0:
		return rapid.SliceOfN(rapid.Byte(), 0, 64).Draw(rt, "raw"), "raw"
	case k <= 4:
		b, err := proto.Marshal(GenWrapper(rt, d))
		if err != nil {
			return nil, "raw"
		}
		return Mutate(rt, "mut", b), "mutated"
	default:
		b, err := proto.Marshal(GenWrapper(rt, d))
		if err != nil {
			return nil, "raw"
		}
		return b, "structured"
	}
}
