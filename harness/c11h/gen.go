package c11h

// Structured generators for the registration protobufs: every field is drawn present / absent /
// invalid so that generated messages parse and reach the logic behind the parser, which random
// bytes practically never do. All randomness comes from rapid draws.

import (
	"encoding/binary"
	"strings"

	pb "github.com/refraction-networking/conjure/proto"
	"google.golang.org/protobuf/proto"
	"google.golang.org/protobuf/types/known/anypb"
	"pgregory.net/rapid"
)

// Dom describes the value domain of a target.
type Dom struct {
	Gens []uint32 // phantom generations the component under test has subnets for
}

func chance(rt *rapid.T, label string, num, den int) bool {
	return rapid.IntRange(0, den-1).Draw(rt, label) < num
}

// G is the state of one structured draw. In the "tame" mode (two thirds of the cases) every field is
// valid with high probability and only a few are hostile, so that messages get through all the
// checks in front of the deep logic; in the "wild" mode every field is hostile with probability
// ~1/3.
type G struct {
	rt   *rapid.T
	d    Dom
	wild bool
}

// NewG draws the mode.
func NewG(rt *rapid.T, d Dom) *G {
	return &G{rt: rt, d: d, wild: rapid.IntRange(0, 3).Draw(rt, "wild") == 3}
}

// odd says whether the next field is to be hostile (absent / invalid / boundary).
func (g *G) odd(label string) bool {
	if g.wild {
		return chance(g.rt, label+"_odd", 1, 4)
	}
	return chance(g.rt, label+"_odd", 1, 24)
}

// Bytes draws a byte string whose length comes from lens (hostile lengths) and whose content is one
// of: zeros, 0xff, counting pattern, drawn bytes.
func Bytes(rt *rapid.T, label string, lens []int) []byte {
	n := rapid.SampledFrom(lens).Draw(rt, label+"_len")
	out := make([]byte, n)
	switch rapid.IntRange(0, 3).Draw(rt, label+"_fill") {
	case 3:
	case 2:
		for i := range out {
			out[i] = 0xff
		}
	case 1:
		seed := rapid.Byte().Draw(rt, label+"_seed")
		for i := range out {
			out[i] = seed + byte(i*7)
		}
	default:
		if n > 0 {
			m := n
			if m > 24 {
				m = 24
			}
			head := rapid.SliceOfN(rapid.Byte(), m, m).Draw(rt, label+"_bytes")
			for i := range out {
				out[i] = head[i%m] ^ byte(i/m)
			}
		}
	}
	return out
}

var (
	secretLens = []int{32, 0, 1, 7, 8, 15, 16, 31, 33, 64}
	addrLens   = []int{4, 16, 0, 1, 3, 5, 15, 17, 32}
	u32Edge    = []uint32{443, 0, 1, 2, 3, 4, 5, 6, 22, 1023, 1024, 65535, 65536, 1 << 31, ^uint32(0)}
	i32Edge    = []int32{0, 1, 2, 3, 4, 5, 6, 7, 8, 9, -1, -2, 10, 11, 100, 1<<31 - 1, -1 << 31}
)

// goodAddr draws a well-formed client address (4-byte v4, 16-byte v4-mapped, 16-byte v6).
func goodAddr(rt *rapid.T, label string) []byte {
	b := rapid.Byte().Draw(rt, label+"_b")
	switch rapid.IntRange(0, 2).Draw(rt, label+"_fam") {
	case 0:
		return []byte{198, 51, 100, b}
	case 1:
		return []byte{0, 0, 0, 0, 0, 0, 0, 0, 0, 0, 0xff, 0xff, 203, 0, 113, b}
	}
	return []byte{0x20, 0x01, 0x0d, 0xb8, 0, 0, 0, 0, 0, 0, 0, 0, 0, 0, 0, b}
}

// badAddr draws a hostile address: zeros, loopback, wrong lengths.
func badAddr(rt *rapid.T, label string) []byte {
	switch rapid.IntRange(0, 3).Draw(rt, label+"_bad") {
	case 0:
		return make([]byte, 16)
	case 1:
		return make([]byte, 4)
	case 2:
		return []byte{127, 0, 0, 1}
	}
	return Bytes(rt, label, addrLens[2:])
}

// Addr draws an address-like byte string.
func (g *G) Addr(label string) []byte {
	if g.odd(label) {
		return badAddr(g.rt, label)
	}
	return goodAddr(g.rt, label)
}

func (g *G) u32(label string, good []uint32, bad []uint32) *uint32 {
	if g.odd(label) {
		switch rapid.IntRange(0, 2).Draw(g.rt, label+"_how") {
		case 0:
			return nil
		case 1:
			return proto.Uint32(rapid.Uint32().Draw(g.rt, label+"_any"))
		}
		return proto.Uint32(rapid.SampledFrom(bad).Draw(g.rt, label+"_bad"))
	}
	return proto.Uint32(rapid.SampledFrom(good).Draw(g.rt, label))
}

// flag draws an optional bool: true with probability pTrue/10, absent when hostile.
func (g *G) flag(label string, pTrue int) *bool {
	if g.odd(label) {
		return nil
	}
	return proto.Bool(rapid.IntRange(0, 9).Draw(g.rt, label) < pTrue)
}

// AddrMsg draws a pb.Addr (DTLS source address): absent, or IP absent / of any length and port
// absent / in or out of the 16-bit range.
func (g *G) AddrMsg(label string, v6 bool) *pb.Addr {
	if g.odd(label + "_absent") {
		return nil
	}
	a := &pb.Addr{}
	if g.odd(label + "_ip") {
		if rapid.Bool().Draw(g.rt, label+"_noip") {
			a.IP = nil
		} else {
			a.IP = badAddr(g.rt, label+"_ip")
		}
	} else if v6 {
		a.IP = []byte{0x20, 0x01, 0x0d, 0xb8, 0, 0, 0, 0, 0, 0, 0, 0, 0, 0, 0, rapid.Byte().Draw(g.rt, label+"_b")}
	} else {
		a.IP = []byte{198, 51, 100, rapid.Byte().Draw(g.rt, label+"_b")}
	}
	a.Port = g.u32(label+"_port", []uint32{1024, 41245, 50000, 65535}, []uint32{0, 65536, 1 << 31, ^uint32(0)})
	return a
}

// ParamsMsg draws a transport parameter message of the named kind ("generic", "prefix", "dtls").
func (g *G) ParamsMsg(label, kind string) proto.Message {
	switch kind {
	case "prefix":
		m := &pb.PrefixTransportParams{}
		if g.odd(label + "_id") {
			if !rapid.Bool().Draw(g.rt, label+"_noid") {
				m.PrefixId = proto.Int32(rapid.SampledFrom(i32Edge[10:]).Draw(g.rt, label+"_badid"))
			}
		} else {
			m.PrefixId = proto.Int32(rapid.SampledFrom(i32Edge[:10]).Draw(g.rt, label+"_id"))
		}
		if chance(g.rt, label+"_hasprefix", 1, 4) {
			m.Prefix = Bytes(g.rt, label+"_prefix", []int{0, 1, 5, 16, 64, 300})
		}
		if chance(g.rt, label+"_hasflush", 1, 3) {
			m.CustomFlushPolicy = proto.Int32(rapid.SampledFrom(i32Edge).Draw(g.rt, label+"_flush"))
		}
		m.RandomizeDstPort = g.flag(label+"_rand", 5)
		return m
	case "dtls":
		m := &pb.DTLSTransportParams{}
		m.SrcAddr4 = g.AddrMsg(label+"_a4", false)
		m.SrcAddr6 = g.AddrMsg(label+"_a6", true)
		m.RandomizeDstPort = g.flag(label+"_rand", 5)
		m.Unordered = g.flag(label+"_unord", 3)
		return m
	default:
		return &pb.GenericTransportParams{RandomizeDstPort: g.flag(label+"_rand", 5)}
	}
}

var paramKinds = []string{"generic", "prefix", "dtls"}

func typeURL(kind string) string {
	switch kind {
	case "prefix":
		return "type.googleapis.com/proto.PrefixTransportParams"
	case "dtls":
		return "type.googleapis.com/proto.DTLSTransportParams"
	}
	return "type.googleapis.com/proto.GenericTransportParams"
}

// Any draws a transport_params Any. `want` is the kind the transport expects ("" = none in
// particular): mostly the matching message with a type URL the code accepts (full, empty as the DNS
// registrar sends it, legacy "tapdance."); when hostile, another kind's message (mismatched
// parameter type), another message's / a garbage URL, or a truncated / corrupted / missing value.
func (g *G) Any(label, want string) *anypb.Any {
	if g.odd(label + "_absent") {
		return nil
	}
	kind := want
	if kind == "" || g.odd(label+"_mismatch") {
		kind = rapid.SampledFrom(paramKinds).Draw(g.rt, label+"_kind")
	}
	val, err := proto.Marshal(g.ParamsMsg(label, kind))
	if err != nil {
		val = nil
	}
	a := &anypb.Any{Value: val}
	if g.odd(label + "_url") {
		switch rapid.IntRange(0, 3).Draw(g.rt, label+"_badurl_kind") {
		case 0:
			a.TypeUrl = typeURL(rapid.SampledFrom(paramKinds).Draw(g.rt, label+"_otherurl"))
		case 1:
			a.TypeUrl = "type.googleapis.com/proto.ClientToStation"
		case 2:
			a.TypeUrl = typeURL(want)
		default:
			a.TypeUrl = rapid.SampledFrom([]string{"/", "proto.", "tapdance.tapdance.", "type.googleapis.com/", "type.googleapis.com/proto.", "type.googleapis.com/google.protobuf.Any"}).Draw(g.rt, label+"_badurl")
		}
	} else {
		switch rapid.IntRange(0, 3).Draw(g.rt, label+"_url") {
		case 0, 1:
			a.TypeUrl = typeURL(kind)
		case 2:
			a.TypeUrl = ""
		default:
			a.TypeUrl = strings.Replace(typeURL(kind), "proto.", "tapdance.", 1)
		}
	}
	if g.odd(label + "_val") {
		switch rapid.IntRange(0, 2).Draw(g.rt, label+"_badval") {
		case 0:
			a.Value = Mutate(g.rt, label+"_mut", a.Value)
		case 1:
			a.Value = nil
		default:
			a.Value = Bytes(g.rt, label+"_garbage", []int{1, 2, 9, 40})
		}
	}
	return a
}

// KindFor returns the parameter kind the station transports expect for a transport type.
func KindFor(tt int32) string {
	switch pb.TransportType(tt) {
	case pb.TransportType_Prefix:
		return "prefix"
	case pb.TransportType_DTLS:
		return "dtls"
	case pb.TransportType_Min, pb.TransportType_Obfs4:
		return "generic"
	}
	return ""
}

var (
	goodCoverts = []string{"192.0.2.1:443", "192.0.2.77:80", "[2001:db8::1]:443", "127.0.0.1:1"}
	badCoverts  = []string{":443", "192.0.2.1", "192.0.2.1:", "a:b:c", "localhost:80", "verif-c11.invalid:443", "192.0.2.1:99999", "192.0.2.1:-1", "[::1]:1",
		"\xff\xfe:1", "[fe80::1%eth0]:443", "", " 192.0.2.1:443", "0.0.0.0:0", "[::ffff:10.0.0.1]:22", strings.Repeat("a", 300) + ":443"}
	goodTransports = []int32{1, 2, 3, 4}
	badTransports  = []int32{0, 5, 6, 9, 99, 100, -1, 1<<31 - 1}
)

// C2S draws a ClientToStation, field by field.
func (g *G) C2S(label string) *pb.ClientToStation {
	rt := g.rt
	c := &pb.ClientToStation{}
	gens := g.d.Gens
	if len(gens) == 0 {
		gens = []uint32{0}
	}
	c.DecoyListGeneration = g.u32(label+"_gen", gens, []uint32{0, 1, 2, 956, ^uint32(0)})
	c.ClientLibVersion = g.u32(label+"_libver", []uint32{4, 4, 3, 3, 2, 1, 0, 5}, []uint32{6, 100, 1 << 31, ^uint32(0)})
	if chance(rt, label+"_hasproto", 1, 6) {
		c.ProtocolVersion = proto.Uint32(rapid.SampledFrom(u32Edge).Draw(rt, label+"_proto"))
	}
	if chance(rt, label+"_hastr", 1, 10) {
		c.StateTransition = pb.C2S_Transition(rapid.SampledFrom([]int32{0, 1, 2, 3, 4, 11, 99, -1}).Draw(rt, label+"_tr")).Enum()
	}
	if chance(rt, label+"_hassync", 1, 10) {
		c.UploadSync = proto.Uint64(rapid.Uint64().Draw(rt, label+"_sync"))
	}
	if chance(rt, label+"_hasdis", 1, 2) {
		c.DisableRegistrarOverrides = proto.Bool(rapid.Bool().Draw(rt, label+"_dis"))
	}
	if chance(rt, label+"_hasfailed", 1, 10) {
		c.FailedDecoys = rapid.SliceOfN(rapid.SampledFrom([]string{"", "a.example", "\xff", strings.Repeat("x", 70)}), 0, 4).Draw(rt, label+"_failed")
	}
	if chance(rt, label+"_hasstats", 1, 10) {
		c.Stats = &pb.SessionStats{FailedDecoysAmount: proto.Uint32(rapid.SampledFrom(u32Edge).Draw(rt, label+"_st1"))}
	}
	var tt int32
	if g.odd(label + "_tt") {
		if !rapid.Bool().Draw(rt, label+"_nott") {
			tt = rapid.SampledFrom(badTransports).Draw(rt, label+"_badtt")
			c.Transport = pb.TransportType(tt).Enum()
		}
	} else {
		tt = rapid.SampledFrom(goodTransports).Draw(rt, label+"_tt")
		c.Transport = pb.TransportType(tt).Enum()
	}
	c.TransportParams = g.Any(label+"_params", KindFor(tt))
	if g.odd(label + "_covert") {
		if !rapid.Bool().Draw(rt, label+"_nocovert") {
			c.CovertAddress = proto.String(rapid.SampledFrom(badCoverts).Draw(rt, label+"_badcovert"))
		}
	} else {
		c.CovertAddress = proto.String(rapid.SampledFrom(goodCoverts).Draw(rt, label+"_covert"))
	}
	if chance(rt, label+"_hasmask", 1, 6) {
		c.MaskedDecoyServerName = proto.String(rapid.SampledFrom([]string{"", "example.com", "\xff", strings.Repeat("m", 260)}).Draw(rt, label+"_mask"))
	}
	c.V4Support = g.flag(label+"_v4", 8)
	c.V6Support = g.flag(label+"_v6", 6)
	if !g.odd(label + "_flags") {
		c.Flags = &pb.RegistrationFlags{}
		if chance(rt, label+"_f1", 1, 3) {
			c.Flags.UploadOnly = proto.Bool(rapid.Bool().Draw(rt, label+"_f1v"))
		}
		if chance(rt, label+"_f3", 1, 3) {
			c.Flags.ProxyHeader = proto.Bool(rapid.Bool().Draw(rt, label+"_f3v"))
		}
		if chance(rt, label+"_f4", 1, 3) {
			c.Flags.Use_TIL = proto.Bool(rapid.Bool().Draw(rt, label+"_f4v"))
		}
		if chance(rt, label+"_f5", 1, 3) {
			c.Flags.Prescanned = proto.Bool(rapid.Bool().Draw(rt, label+"_f5v"))
		}
	}
	if chance(rt, label+"_haspad", 1, 10) {
		c.Padding = Bytes(rt, label+"_pad", []int{0, 1, 100, 1000})
	}
	return c
}

// RegResp draws a RegistrationResponse (the registrar-only part of a C2SWrapper, which a hostile
// client or a registrar may fill with anything).
func (g *G) RegResp(label string) *pb.RegistrationResponse {
	rt := g.rt
	r := &pb.RegistrationResponse{}
	if chance(rt, label+"_has4", 2, 3) {
		if g.odd(label + "_v4") {
			r.Ipv4Addr = proto.Uint32(rapid.SampledFrom([]uint32{0, 1, 0x7f000001, ^uint32(0)}).Draw(rt, label+"_badv4"))
		} else {
			r.Ipv4Addr = proto.Uint32(binary.BigEndian.Uint32([]byte{192, 122, 190, rapid.Byte().Draw(rt, label+"_v4b")}))
		}
	}
	if chance(rt, label+"_has6", 2, 3) {
		if g.odd(label + "_v6") {
			r.Ipv6Addr = Bytes(rt, label+"_badv6", addrLens)
		} else {
			r.Ipv6Addr = []byte{0x20, 0x01, 0x48, 0xa8, 0x68, 0x7f, 0, 1, 0, 0, 0, 0, 0, 0, 0, rapid.Byte().Draw(rt, label+"_v6b")}
		}
	}
	if chance(rt, label+"_hasport", 2, 3) {
		r.DstPort = g.u32(label+"_port", []uint32{443, 80, 1024, 8443, 65535}, []uint32{0, 65536, 1 << 31, ^uint32(0)})
	}
	if chance(rt, label+"_hasrand", 1, 8) {
		r.ServerRandom = Bytes(rt, label+"_srvrand", []int{0, 1, 32})
	}
	if chance(rt, label+"_haserr", 1, 8) {
		r.Error = proto.String(rapid.SampledFrom([]string{"", "err", "\xff"}).Draw(rt, label+"_err"))
	}
	if chance(rt, label+"_hascc", 1, 8) {
		r.ClientConf = &pb.ClientConf{Generation: proto.Uint32(rapid.SampledFrom(u32Edge).Draw(rt, label+"_ccgen"))}
	}
	if chance(rt, label+"_hasparams", 1, 2) {
		r.TransportParams = g.Any(label+"_params", rapid.SampledFrom([]string{"prefix", "generic", "dtls", ""}).Draw(rt, label+"_pkind"))
	}
	if chance(rt, label+"_haspsr", 1, 2) {
		r.PhantomsSupportPortRand = proto.Bool(rapid.Bool().Draw(rt, label+"_psr"))
	}
	return r
}

// Wrapper draws a C2SWrapper, field by field (every sub-message may be absent).
func (g *G) Wrapper() *pb.C2SWrapper {
	rt := g.rt
	w := &pb.C2SWrapper{}
	if g.odd("secret") {
		if !rapid.Bool().Draw(rt, "nosecret") {
			w.SharedSecret = Bytes(rt, "badsecret", secretLens[1:])
		}
	} else {
		w.SharedSecret = Bytes(rt, "secret", secretLens[:1])
	}
	if !g.odd("payload") {
		w.RegistrationPayload = g.C2S("c2s")
	}
	if chance(rt, "hassource", 2, 3) {
		if g.odd("source") {
			w.RegistrationSource = pb.RegistrationSource(rapid.SampledFrom([]int32{7, 99, -1, 1 << 30}).Draw(rt, "badsource")).Enum()
		} else {
			w.RegistrationSource = pb.RegistrationSource(rapid.IntRange(0, 6).Draw(rt, "source")).Enum()
		}
	}
	if chance(rt, "hasregaddr", 3, 4) {
		w.RegistrationAddress = g.Addr("regaddr")
	}
	if chance(rt, "hasdecoyaddr", 1, 3) {
		w.DecoyAddress = g.Addr("decoyaddr")
	}
	if chance(rt, "hasresp", 1, 2) {
		w.RegistrationResponse = g.RegResp("rr")
	}
	if chance(rt, "hasrrbytes", 1, 8) {
		w.RegRespBytes = Bytes(rt, "rrbytes", []int{0, 1, 20})
		w.RegRespSignature = Bytes(rt, "rrsig", []int{64, 0, 1, 63, 65})
	}
	return w
}

// Mutate applies 1-3 byte-level edits (bit flip, hostile byte, truncate, delete, duplicate, insert an
// over-long varint / length prefix / group marker, append garbage).
func Mutate(rt *rapid.T, label string, b []byte) []byte {
	out := append([]byte(nil), b...)
	n := rapid.IntRange(1, 3).Draw(rt, label+"_n")
	for i := 0; i < n; i++ {
		op := rapid.IntRange(0, 7).Draw(rt, label+"_op")
		if len(out) == 0 {
			op = 7
		}
		switch op {
		case 0:
			p := rapid.IntRange(0, len(out)*8-1).Draw(rt, label+"_bit")
			out[p/8] ^= 1 << uint(p%8)
		case 1:
			p := rapid.IntRange(0, len(out)-1).Draw(rt, label+"_pos")
			out[p] = rapid.SampledFrom([]byte{0, 1, 0x7f, 0x80, 0xff, 0xc0}).Draw(rt, label+"_byte")
		case 2:
			out = out[:rapid.IntRange(0, len(out)-1).Draw(rt, label+"_cut")]
		case 3:
			p := rapid.IntRange(0, len(out)-1).Draw(rt, label+"_from")
			q := rapid.IntRange(p, len(out)).Draw(rt, label+"_to")
			out = append(append([]byte(nil), out[:p]...), out[q:]...)
		case 4:
			p := rapid.IntRange(0, len(out)-1).Draw(rt, label+"_from")
			q := rapid.IntRange(p, len(out)).Draw(rt, label+"_to")
			if q-p > 64 {
				q = p + 64
			}
			dup := append([]byte(nil), out[p:q]...)
			out = append(append(append([]byte(nil), out[:q]...), dup...), out[q:]...)
		case 5:
			p := rapid.IntRange(0, len(out)).Draw(rt, label+"_at")
			ins := rapid.SampledFrom([][]byte{
				{0xff, 0xff, 0xff, 0xff, 0xff, 0xff, 0xff, 0xff, 0xff, 0x01},
				{0xff, 0xff, 0xff, 0xff, 0x0f},
				{0x1a, 0xff, 0xff, 0xff, 0xff, 0x07}, // field 3 (registration_payload), length 2^31-1
				{0x1a, 0x00},                         // field 3, empty sub-message
				{0x42, 0x00},                         // field 8 (registration_response), empty
				{0x0b}, {0x0c},                       // start / end group
				{0x00},
			}).Draw(rt, label+"_ins")
			out = append(append(append([]byte(nil), out[:p]...), ins...), out[p:]...)
		case 6:
			p := rapid.IntRange(0, len(out)-1).Draw(rt, label+"_pos")
			out[p] = rapid.Byte().Draw(rt, label+"_anybyte")
		default:
			out = append(out, rapid.SliceOfN(rapid.Byte(), 1, 12).Draw(rt, label+"_tail")...)
		}
	}
	return out
}

// GenWrapperBytes draws the wire form of a registration message: mostly a structured C2SWrapper
// (kind "structured"), sometimes with byte-level edits ("mutated") and rarely raw bytes ("raw").
func GenWrapperBytes(rt *rapid.T, d Dom) (msg []byte, kind string) {
	k := rapid.IntRange(0, 19).Draw(rt, "wire_kind")
	if k == 19 {
		return rapid.SliceOfN(rapid.Byte(), 0, 64).Draw(rt, "raw"), "raw"
	}
	b, err := proto.Marshal(NewG(rt, d).Wrapper())
	if err != nil {
		return nil, "raw"
	}
	if k >= 15 {
		return Mutate(rt, "mut", b), "mutated"
	}
	return b, "structured"
}
