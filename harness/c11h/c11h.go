// Package c11h holds the helpers shared by the in-package C11 checks ("no externally supplied
// bytes can crash a station or registrar process"). Those checks live in ten different packages of
// the code under test and therefore cannot share test code directly.
//
// Contents: a guarded call (recover + per-input time bound), the root-cause key of a panic (top
// frame that belongs to the code under test), a process-wide recorder registry that also works inside
// `go test -fuzz` worker processes, the byte-level mutator used by the structured generators, the
// field-by-field protobuf generators, and a writer for Go fuzz corpus files.
//
// No RNG and no wall clock in any decision except the one-sided per-input time bound, which is what
// the property itself is about ("never hangs").
package c11h

import (
	"fmt"
	"os"
	"path/filepath"
	"runtime/debug"
	"strconv"
	"strings"
	"sync"
	"syscall"
	"time"

	"verif/harness/vh"
)

// Bound is the per-input bound, measured in CPU time of the process: an input that is still running
// after the process burned Bound of CPU since the call started (and at least as much wall time has
// passed) is a hang. Inputs take micro- to milliseconds. CPU time rather than wall time because a
// starved or throttled machine can suspend a whole process for seconds (observed: a 2 s wall bound
// fired on a benign 4 KiB datagram with 16 fuzz workers on a box at load 100) and timing must never
// decide a verdict; a stall accrues no CPU time, a runaway loop accrues it at one second per second.
const Bound = 6 * time.Second

// BoundCPU is the bound for entry points that only compute on a small input (parsers): still three
// to six orders of magnitude above what such a call takes, and short enough that a runaway loop that
// also allocates cannot exhaust memory before it is reported.
const BoundCPU = 1 * time.Second

// Outcome is what a guarded call did.
type Outcome struct {
	Panic        any           // recovered value, nil if none
	Stack        string        // stack of the panicking goroutine
	Hung         bool          // did not return within the bound (its goroutine is abandoned)
	Inconclusive bool          // gave up waiting without evidence of a hang (the process was starved); never a verdict
	Dur          time.Duration // how long the call took
}

func cpuTime() time.Duration {
	var ru syscall.Rusage
	if err := syscall.Getrusage(syscall.RUSAGE_SELF, &ru); err != nil {
		return 0
	}
	return time.Duration(ru.Utime.Nano() + ru.Stime.Nano())
}

// Watch decides when a call that has not returned yet is to be called hung.
type Watch struct {
	start time.Time
	cpu0  time.Duration
	bound time.Duration
}

// NewWatch starts watching a call with CPU budget bound.
func NewWatch(bound time.Duration) *Watch {
	return &Watch{start: time.Now(), cpu0: cpuTime(), bound: bound}
}

// Elapsed returns the wall time since the watch started.
func (w *Watch) Elapsed() time.Duration { return time.Since(w.start) }

// Verdict reports whether the watched call, still running, is hung (CPU budget used up, or — a call
// that blocks without computing — ten times the budget of wall time, at least 30 s, gone by) or
// whether waiting has to end without a verdict (inside a `go test -fuzz` worker, which kills itself
// after 10 s per input: after 8 s of wall time without the CPU budget being used).
func (w *Watch) Verdict() (hung, inconclusive bool) {
	wall := time.Since(w.start)
	if wall < w.bound {
		return false, false
	}
	if cpuTime()-w.cpu0 >= w.bound {
		return true, false
	}
	if FuzzWorker() {
		return false, wall >= 8*time.Second
	}
	max := 10 * w.bound
	if max < 30*time.Second {
		max = 30 * time.Second
	}
	return wall >= max, false
}

// Guard runs fn in its own goroutine, recovers a panic and waits for it to return until the Watch
// for bound gives up. fn must only run code under test and store results in variables of the
// caller; it must not call t.Fatalf.
func Guard(bound time.Duration, fn func()) Outcome {
	ch := make(chan Outcome, 1)
	w := NewWatch(bound)
	start := w.start
	go func() {
		defer func() {
			if p := recover(); p != nil {
				ch <- Outcome{Panic: p, Stack: string(debug.Stack()), Dur: time.Since(start)}
				return
			}
			ch <- Outcome{Dur: time.Since(start)}
		}()
		fn()
	}()
	// fast path: practically every call is done within a scheduler tick
	first := time.NewTimer(bound)
	select {
	case o := <-ch:
		first.Stop()
		return o
	case <-first.C:
	}
	tick := time.NewTicker(100 * time.Millisecond)
	defer tick.Stop()
	for {
		select {
		case o := <-ch:
			return o
		case <-tick.C:
			if hung, inc := w.Verdict(); hung || inc {
				return Outcome{Hung: hung, Inconclusive: inc, Dur: time.Since(start)}
			}
		}
	}
}

// TopFrame returns the function name of the top-most frame of a debug.Stack() trace that belongs
// to the code under test: not the Go runtime / standard library, not a third-party module, not the
// harness (overlay files are named zz_verif_*). The package path is shortened to its last element,
// e.g. "apiregserver.(*APIRegServer).registerBidirectional". Returns "unknown" if there is none.
func TopFrame(stack string) string {
	lines := strings.Split(stack, "\n")
	goroot := "/usr/local/go/"
	if gr := os.Getenv("GOROOT"); gr != "" {
		goroot = gr
	}
	for i := 0; i+1 < len(lines); i++ {
		fn := lines[i]
		loc := strings.TrimSpace(lines[i+1])
		if !strings.HasPrefix(lines[i+1], "\t") || strings.HasPrefix(fn, "\t") || fn == "" {
			continue
		}
		if strings.HasPrefix(fn, "goroutine ") || strings.HasPrefix(fn, "created by ") {
			continue
		}
		if strings.Contains(loc, "zz_verif_") || strings.Contains(loc, "/verif/harness/") ||
			strings.Contains(loc, "/pkg/mod/") || strings.HasPrefix(loc, goroot) ||
			strings.Contains(loc, "/go/src/") || strings.HasPrefix(loc, "_cgo_") {
			continue
		}
		if strings.HasPrefix(fn, "runtime.") || strings.HasPrefix(fn, "runtime/") || strings.HasPrefix(fn, "panic(") ||
			strings.HasPrefix(fn, "testing.") || strings.HasPrefix(fn, "pgregory.net/") {
			continue
		}
		// strip the argument list
		if k := strings.LastIndex(fn, "("); k > 0 {
			fn = fn[:k]
		}
		if k := strings.LastIndex(fn, "/"); k >= 0 {
			fn = fn[k+1:]
		}
		return fn
	}
	return "unknown"
}

// Key is the root-cause signature of an outcome at an entry point: "" if the call returned,
// "panic:<entry>:<top frame>" or "hang:<entry>".
func Key(entry string, o Outcome) string {
	switch {
	case o.Panic != nil:
		return "panic:" + entry + ":" + TopFrame(o.Stack)
	case o.Hung:
		return "hang:" + entry
	}
	return ""
}

// Describe renders the outcome for a violation message.
func Describe(o Outcome) string {
	switch {
	case o.Panic != nil:
		return fmt.Sprintf("panic: %v (top frame of the code under test: %s)", o.Panic, TopFrame(o.Stack))
	case o.Hung:
		return fmt.Sprintf("did not return within the per-input bound (gave up after %v)", o.Dur.Round(time.Millisecond))
	}
	return "returned"
}

// Recorder registry ---------------------------------------------------------------------------------

var (
	recMu    sync.Mutex
	recs     = map[string]*vh.Rec{}
	lastFl   = map[string]time.Time{}
	nontriv  = map[string]int{}
	workerSt sync.Once
)

// FuzzWorker reports whether this process is a `go test -fuzz` worker.
func FuzzWorker() bool {
	for _, a := range os.Args {
		if strings.HasPrefix(a, "-test.fuzzworker") {
			return true
		}
	}
	return false
}

// Rec returns the process-wide recorder of sub-check `sub`, creating it on first use. A sub-check is
// fed by its TestVerif_C11_<sub> function (replay / rapid) and by its FuzzVerif_C11_<sub> target
// (seed corpus in the quick tier, coverage-guided in the thorough tier); both use the same case type
// and oracle, so a violation found by the fuzz target replays through the test function.
//
// In a fuzz worker process the record is written under a per-process shard index (vcheck merges
// shards), see Tick.
func Rec(sub, rule string) *vh.Rec {
	workerSt.Do(func() {
		if FuzzWorker() {
			os.Setenv("VERIF_SHARDS", strconv.Itoa(1<<30))
			os.Setenv("VERIF_SHARD", strconv.Itoa(os.Getpid()))
		}
	})
	recMu.Lock()
	defer recMu.Unlock()
	if r, ok := recs[sub]; ok {
		return r
	}
	r := vh.NewRec("C11", sub, rule)
	recs[sub] = r
	lastFl[sub] = time.Now()
	return r
}

// Tick flushes the recorder every few seconds when running inside a fuzz worker (workers are
// killed, not shut down, so a deferred Flush never runs there). No effect elsewhere.
func Tick(sub string) {
	if !FuzzWorker() {
		return
	}
	recMu.Lock()
	r := recs[sub]
	due := r != nil && time.Since(lastFl[sub]) > 4*time.Second
	if due {
		lastFl[sub] = time.Now()
	}
	recMu.Unlock()
	if due {
		r.Flush()
	}
}

// NontrivCap bounds the number of distinct digests a fuzz worker keeps per sub-check (memory): after
// the cap a non-trivial case is still counted in the class histogram ("nontrivial-beyond-digest-cap")
// but no longer as a distinct non-trivial case.
const NontrivCap = 150000

// Count records one evaluated case.
func Count(rec *vh.Rec, sub string, nontrivial bool, digest [8]byte, sample any, classes ...string) {
	if nontrivial && FuzzWorker() {
		recMu.Lock()
		nontriv[sub]++
		over := nontriv[sub] > NontrivCap
		recMu.Unlock()
		if over {
			rec.Case(false, digest, nil, append(classes, "nontrivial-beyond-digest-cap")...)
			return
		}
	}
	rec.Case(nontrivial, digest, sample, classes...)
}

// Report records the case and raises the violation for a panic / hang. It returns true if the
// outcome was clean.
func Report(t vh.Fataler, rec *vh.Rec, sub, entry string, c any, digest [8]byte, o Outcome, nontrivial bool, classes ...string) bool {
	t.Helper()
	if o.Inconclusive {
		// no verdict: the process was starved for seconds while this input ran (see Bound)
		rec.Case(false, digest, nil, append(classes, "inconclusive:starved")...)
		rec.Note("input %x ran into the fuzz worker's wall-clock limit without using its CPU budget (starved machine); no verdict", digest)
		Tick(sub)
		return true
	}
	key := Key(entry, o)
	if key != "" {
		classes = append(classes, "outcome:"+strings.SplitN(key, ":", 2)[0])
	}
	Count(rec, sub, nontrivial, digest, c, classes...)
	Tick(sub)
	if key == "" {
		return true
	}
	if o.Hung {
		// The runaway goroutine cannot be stopped and may allocate without bound; shrinking or
		// minimising would only start more of them. Record the violation and leave the process.
		if rec.ViolationNoFatal(key, c, "%s: %s", entry, Describe(o)) {
			FlushAll()
			fmt.Printf("VERIF-VIOLATION property=C11 sub=%s key=%s: %s: %s (process exits: the hung call cannot be stopped)\n", sub, key, entry, Describe(o))
			os.Exit(1)
		}
		return false
	}
	rec.Violation(t, key, c, "%s: %s", entry, Describe(o))
	return false
}

// FlushAll writes every recorder of this process.
func FlushAll() {
	recMu.Lock()
	var all []*vh.Rec
	for _, r := range recs {
		all = append(all, r)
	}
	recMu.Unlock()
	for _, r := range all {
		r.Flush()
	}
}

// Source says where the current case comes from (class label).
func Source(fuzz bool) string {
	if !fuzz {
		return "src:generated"
	}
	if FuzzWorker() {
		return "src:fuzzer"
	}
	return "src:corpus"
}

// Corpus files ---------------------------------------------------------------------------------------

// CorpusDir returns the directory seed corpus files are to be written to ("" = do not write). Set
// VERIF_C11_WRITE_CORPUS=/verif/corpus once, when the seeds change.
func CorpusDir() string { return os.Getenv("VERIF_C11_WRITE_CORPUS") }

// WriteCorpus writes one Go fuzz corpus file ("go test fuzz v1") per seed for `target`. Each seed
// is the argument list of the fuzz function after *testing.T; supported types: []byte, string,
// uint16, uint32, uint64, int, bool.
func WriteCorpus(target string, seeds [][]any) error {
	return WriteCorpusNamed(target, "seed", seeds)
}

// WriteCorpusNamed is WriteCorpus with a file name prefix (several producers for one target).
func WriteCorpusNamed(target, prefix string, seeds [][]any) error {
	dir := CorpusDir()
	if dir == "" {
		return nil
	}
	d := filepath.Join(dir, target)
	if err := os.MkdirAll(d, 0o755); err != nil {
		return err
	}
	for i, s := range seeds {
		var sb strings.Builder
		sb.WriteString("go test fuzz v1\n")
		for _, a := range s {
			switch v := a.(type) {
			case []byte:
				fmt.Fprintf(&sb, "[]byte(%q)\n", string(v))
			case string:
				fmt.Fprintf(&sb, "string(%q)\n", v)
			case uint16:
				fmt.Fprintf(&sb, "uint16(%d)\n", v)
			case uint32:
				fmt.Fprintf(&sb, "uint32(%d)\n", v)
			case uint64:
				fmt.Fprintf(&sb, "uint64(%d)\n", v)
			case int:
				fmt.Fprintf(&sb, "int(%d)\n", v)
			case bool:
				fmt.Fprintf(&sb, "bool(%v)\n", v)
			default:
				return fmt.Errorf("WriteCorpus: unsupported seed type %T", a)
			}
		}
		name := fmt.Sprintf("%s-%03d", prefix, i)
		if err := os.WriteFile(filepath.Join(d, name), []byte(sb.String()), 0o644); err != nil {
			return err
		}
	}
	return nil
}
