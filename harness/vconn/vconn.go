// Package vconn provides a scripted net.Conn with a virtual clock for the /verif checks.
//
// The read side follows a script (segments, pauses, data-with-error, faults); the write side is
// recorded and can inject faults per call; deadlines are *virtual*: when the read script is
// exhausted and the peer "holds" the connection open, a Read waits until the deadline last set
// through SetDeadline/SetReadDeadline by advancing the connection's virtual clock to it and returns
// the time-out error the net package would return. This turns the station's 5-10 s classification
// wait (and the proxy's 30 s / 2 min stall time-outs) into microseconds without touching station
// code, while recording the deadline values the station chose.
package vconn

import (
	"strings"
	"strconv"
	"errors"
	"fmt"
	"io"
	"net"
	"os"
	"sync"
	"syscall"
	"time"

	"verif/harness/vh"
)

// Step is one element of the read script.
type Step struct {
	Data        vh.Hex `json:"data,omitempty"`
	Err         string `json:"err,omitempty"`          // error kind returned together with the last byte of Data (or alone)
	PauseMs     int64  `json:"pause_ms,omitempty"`     // virtual time that passes before the data arrives
	WaitWritten int    `json:"wait_written,omitempty"` // block until this many bytes were written to the conn (real time, bounded)
	Hook        string `json:"hook,omitempty"`         // name passed to Conn.OnHook when the reader reaches this step (before its data)
}

// Fault is an injected result for a Write call.
type Fault struct {
	Accept int    `json:"accept"` // bytes reported as written (<= len(p)); -1 = all
	Err    string `json:"err,omitempty"`
}

// Script describes the peer's behaviour.
type Script struct {
	Reads          []Step         `json:"reads"`
	End            string         `json:"end"` // "hold" (peer stays silent, never closes), "eof", or an error kind
	WriteFaults    map[int]Fault  `json:"write_faults,omitempty"`
	DeadlineFaults map[int]string `json:"deadline_faults,omitempty"` // SetDeadline call index -> error kind
	CloseErr       string         `json:"close_err,omitempty"`
	Remote         string         `json:"remote"` // "ip:port"
	Local          string         `json:"local"`
}

// Event is one call made on the connection.
type Event struct {
	Kind     string        `json:"kind"` // read, write, setdeadline, setreaddeadline, setwritedeadline, close
	N        int           `json:"n,omitempty"`
	Err      string        `json:"err,omitempty"`
	VT       time.Duration `json:"vt"` // virtual time since creation
	Deadline time.Duration `json:"deadline,omitempty"`
	ZeroDL   bool          `json:"zero_deadline,omitempty"`
}

// Conn is the scripted connection.
type Conn struct {
	mu      sync.Mutex
	cond    *sync.Cond
	s       Script
	ri, off int
	paused  bool // pause of current step already applied
	start   time.Time
	voff    time.Duration // virtual clock = real now + voff
	rdl     time.Time
	wdl     time.Time
	closed  bool
	Events  []Event
	Written []byte
	readN   int
	nWrite  int
	nDL     int
	local   net.Addr
	remote  net.Addr
	// WaitLimit bounds real-time blocking (WaitWritten / hold without deadline).
	WaitLimit time.Duration
	// TimedOutWaiting is set when a real-time wait hit WaitLimit (harness trouble, not a verdict).
	TimedOutWaiting bool
	// OnHook, when set, is called (without the conn's lock) when the reader reaches a step with a Hook.
	OnHook func(name string)
	hooked map[int]bool
}

// New creates a scripted connection.
func New(s Script) *Conn {
	c := &Conn{s: s, start: time.Now(), WaitLimit: 20 * time.Second}
	c.cond = sync.NewCond(&c.mu)
	c.local = parseAddr(s.Local, "10.9.9.9:41245")
	c.remote = parseAddr(s.Remote, "203.0.113.77:5555")
	return c
}

func parseAddr(s, def string) net.Addr {
	if s == "" {
		s = def
	}
	a, err := net.ResolveTCPAddr("tcp", s)
	if err != nil {
		a, _ = net.ResolveTCPAddr("tcp", def)
	}
	return a
}

func (c *Conn) vnow() time.Time { return time.Now().Add(c.voff) }

// VNow returns the virtual time elapsed since creation.
func (c *Conn) VNow() time.Duration {
	c.mu.Lock()
	defer c.mu.Unlock()
	return c.vnow().Sub(c.start)
}

func (c *Conn) ev(e Event) {
	e.VT = c.vnow().Sub(c.start)
	c.Events = append(c.Events, e)
}

// MkErr builds an error of the named kind in the shape the net package produces for `op` on a TCP
// connection between local and remote.
func MkErr(kind, op string, local, remote net.Addr) error {
	wrap := func(inner error) error {
		if op == "set" {
			// the net package reports deadline errors with the local address only
			return &net.OpError{Op: op, Net: "tcp", Source: nil, Addr: local, Err: inner}
		}
		return &net.OpError{Op: op, Net: "tcp", Source: local, Addr: remote, Err: inner}
	}
	sys := func(e syscall.Errno) error { return wrap(os.NewSyscallError(op, e)) }
	switch kind {
	case "":
		return nil
	case "eof":
		return io.EOF
	case "unexpected-eof":
		return io.ErrUnexpectedEOF
	case "reset":
		return sys(syscall.ECONNRESET)
	case "epipe":
		return sys(syscall.EPIPE)
	case "refused":
		return sys(syscall.ECONNREFUSED)
	case "aborted":
		return sys(syscall.ECONNABORTED)
	case "ehostunreach":
		return sys(syscall.EHOSTUNREACH)
	case "enetunreach":
		return sys(syscall.ENETUNREACH)
	case "enotconn":
		return sys(syscall.ENOTCONN)
	case "enobufs":
		return sys(syscall.ENOBUFS)
	case "einval":
		return sys(syscall.EINVAL)
	case "eio":
		return sys(syscall.EIO)
	case "enetdown":
		return sys(syscall.ENETDOWN)
	case "enomem":
		return sys(syscall.ENOMEM)
	case "ebadf":
		return sys(syscall.EBADF)
	case "etimedout":
		return sys(syscall.ETIMEDOUT)
	case "timeout":
		return wrap(os.ErrDeadlineExceeded)
	case "closed":
		return wrap(net.ErrClosed)
	case "short":
		return nil
	case "wrapped-reset":
		return fmt.Errorf("transport: %w", sys(syscall.ECONNRESET))
	case "wrapped-enetunreach":
		return fmt.Errorf("transport: %w", sys(syscall.ENETUNREACH))
	case "emfile":
		return sys(syscall.EMFILE)
	case "enfile":
		return sys(syscall.ENFILE)
	case "text":
		// an error that is only text (e.g. produced by a library that formats the OpError)
		return errors.New(wrap(os.NewSyscallError(op, syscall.ENETUNREACH)).Error())
	}
	if strings.HasPrefix(kind, "errno:") {
		// any errno by number, e.g. "errno:24"
		if n, err := strconv.Atoi(kind[len("errno:"):]); err == nil && n > 0 {
			return sys(syscall.Errno(n))
		}
	}
	return wrap(errors.New(kind))
}

// ErrKinds lists every error kind MkErr knows (except "", "short").
var ErrKinds = []string{"eof", "unexpected-eof", "reset", "epipe", "refused", "aborted", "ehostunreach", "enetunreach",
	"enotconn", "enobufs", "einval", "eio", "enetdown", "enomem", "ebadf", "etimedout", "timeout", "closed",
	"wrapped-reset", "wrapped-enetunreach", "text"}

func (c *Conn) Read(p []byte) (int, error) {
	c.mu.Lock()
	defer c.mu.Unlock()
	for {
		if c.closed {
			err := MkErr("closed", "read", c.local, c.remote)
			c.ev(Event{Kind: "read", Err: "closed"})
			return 0, err
		}
		if len(p) == 0 {
			c.ev(Event{Kind: "read"})
			return 0, nil
		}
		if c.ri < len(c.s.Reads) {
			st := &c.s.Reads[c.ri]
			if st.Hook != "" && c.OnHook != nil && !c.hooked[c.ri] {
				if c.hooked == nil {
					c.hooked = map[int]bool{}
				}
				c.hooked[c.ri] = true
				f, name := c.OnHook, st.Hook
				c.mu.Unlock()
				f(name)
				c.mu.Lock()
				continue
			}
			if st.WaitWritten > 0 && len(c.Written) < st.WaitWritten {
				if !c.waitLocked(func() bool { return len(c.Written) >= st.WaitWritten || c.closed }) {
					c.TimedOutWaiting = true
					c.ri++ // give up waiting; carry on with the script
				}
				continue
			}
			if st.PauseMs > 0 && !c.paused {
				c.paused = true
				arrive := c.vnow().Add(time.Duration(st.PauseMs) * time.Millisecond)
				if !c.rdl.IsZero() && arrive.After(c.rdl) {
					// the deadline fires during the pause; the pause continues afterwards
					rest := arrive.Sub(c.rdl)
					if c.rdl.After(c.vnow()) {
						c.voff += c.rdl.Sub(c.vnow())
					}
					st.PauseMs = int64(rest / time.Millisecond)
					c.paused = false
					c.ev(Event{Kind: "read", Err: "timeout"})
					return 0, MkErr("timeout", "read", c.local, c.remote)
				}
				c.voff += time.Duration(st.PauseMs) * time.Millisecond
			}
			if !c.rdl.IsZero() && !c.vnow().Before(c.rdl) {
				c.ev(Event{Kind: "read", Err: "timeout"})
				return 0, MkErr("timeout", "read", c.local, c.remote)
			}
			n := copy(p, st.Data[c.off:])
			c.off += n
			var err error
			kind := ""
			if c.off >= len(st.Data) {
				kind = st.Err
				err = MkErr(st.Err, "read", c.local, c.remote)
				c.ri++
				c.off = 0
				c.paused = false
			}
			if n == 0 && err == nil {
				continue // empty step
			}
			c.readN += n
			c.ev(Event{Kind: "read", N: n, Err: kind})
			return n, err
		}
		// script exhausted
		switch c.s.End {
		case "", "hold":
			if c.rdl.IsZero() {
				// no deadline: a silent peer blocks the reader until the conn is closed
				if !c.waitLocked(func() bool { return c.closed || !c.rdl.IsZero() }) {
					c.TimedOutWaiting = true
					c.ev(Event{Kind: "read", Err: "harness-wait-limit"})
					return 0, MkErr("closed", "read", c.local, c.remote)
				}
				continue
			}
			if c.rdl.After(c.vnow()) {
				c.voff += c.rdl.Sub(c.vnow())
			}
			c.ev(Event{Kind: "read", Err: "timeout"})
			return 0, MkErr("timeout", "read", c.local, c.remote)
		default:
			c.ev(Event{Kind: "read", Err: c.s.End})
			return 0, MkErr(c.s.End, "read", c.local, c.remote)
		}
	}
}

// waitLocked waits (real time, bounded by WaitLimit) until pred holds. Returns false on limit.
func (c *Conn) waitLocked(pred func() bool) bool {
	deadline := time.Now().Add(c.WaitLimit)
	timer := time.AfterFunc(c.WaitLimit, func() { c.mu.Lock(); c.cond.Broadcast(); c.mu.Unlock() })
	defer timer.Stop()
	for !pred() {
		if time.Now().After(deadline) {
			return false
		}
		c.cond.Wait()
	}
	return true
}

func (c *Conn) Write(p []byte) (int, error) {
	c.mu.Lock()
	defer c.mu.Unlock()
	idx := c.nWrite
	c.nWrite++
	if c.closed {
		c.ev(Event{Kind: "write", Err: "closed"})
		return 0, MkErr("closed", "write", c.local, c.remote)
	}
	if f, ok := c.s.WriteFaults[idx]; ok {
		n := f.Accept
		if n < 0 || n > len(p) {
			n = len(p)
		}
		c.Written = append(c.Written, p[:n]...)
		c.ev(Event{Kind: "write", N: n, Err: f.Err})
		c.cond.Broadcast()
		return n, MkErr(f.Err, "write", c.local, c.remote)
	}
	c.Written = append(c.Written, p...)
	c.ev(Event{Kind: "write", N: len(p)})
	c.cond.Broadcast()
	return len(p), nil
}

func (c *Conn) Close() error {
	c.mu.Lock()
	defer c.mu.Unlock()
	if c.closed {
		c.ev(Event{Kind: "close", Err: "closed"})
		return MkErr("closed", "close", c.local, c.remote)
	}
	c.closed = true
	c.ev(Event{Kind: "close", Err: c.s.CloseErr})
	c.cond.Broadcast()
	return MkErr(c.s.CloseErr, "close", c.local, c.remote)
}

func (c *Conn) LocalAddr() net.Addr  { return c.local }
func (c *Conn) RemoteAddr() net.Addr { return c.remote }

func (c *Conn) setDL(kind string, t time.Time, r, w bool) error {
	c.mu.Lock()
	defer c.mu.Unlock()
	idx := c.nDL
	c.nDL++
	if c.closed {
		c.ev(Event{Kind: kind, Err: "closed"})
		return MkErr("closed", "set", c.local, c.remote)
	}
	if k, ok := c.s.DeadlineFaults[idx]; ok {
		c.ev(Event{Kind: kind, Err: k})
		return MkErr(k, "set", c.local, c.remote)
	}
	// the code under test computes deadlines from the real clock; translate into virtual time
	vt := t
	if !t.IsZero() {
		vt = t.Add(c.voff)
	}
	if r {
		c.rdl = vt
	}
	if w {
		c.wdl = vt
	}
	e := Event{Kind: kind, ZeroDL: t.IsZero()}
	if !t.IsZero() {
		// deadlines are chosen by the code under test relative to the real clock
		e.Deadline = t.Sub(time.Now())
	}
	c.ev(e)
	c.cond.Broadcast()
	return nil
}

func (c *Conn) SetDeadline(t time.Time) error      { return c.setDL("setdeadline", t, true, true) }
func (c *Conn) SetReadDeadline(t time.Time) error  { return c.setDL("setreaddeadline", t, true, false) }
func (c *Conn) SetWriteDeadline(t time.Time) error { return c.setDL("setwritedeadline", t, false, true) }

// Snapshot returns a copy of the recorded state.
func (c *Conn) Snapshot() (events []Event, written []byte, readN int, closed bool) {
	c.mu.Lock()
	defer c.mu.Unlock()
	return append([]Event(nil), c.Events...), append([]byte(nil), c.Written...), c.readN, c.closed
}

// Remaining returns the number of scripted bytes not yet consumed by Read.
func (c *Conn) Remaining() int {
	c.mu.Lock()
	defer c.mu.Unlock()
	n := 0
	for i := c.ri; i < len(c.s.Reads); i++ {
		n += len(c.s.Reads[i].Data)
	}
	return n - c.off
}

// WaitClosed blocks (bounded) until Close was called.
func (c *Conn) WaitClosed(limit time.Duration) bool {
	c.mu.Lock()
	defer c.mu.Unlock()
	old := c.WaitLimit
	c.WaitLimit = limit
	ok := c.waitLocked(func() bool { return c.closed })
	c.WaitLimit = old
	return ok
}

// AvailableUnread returns the number of scripted bytes that were available to the reader at once
// (the current step's remainder and the following steps up to the first one that has a pause or
// waits for writes) but were never read.
func (c *Conn) AvailableUnread() int {
	c.mu.Lock()
	defer c.mu.Unlock()
	n := 0
	for i := c.ri; i < len(c.s.Reads); i++ {
		st := c.s.Reads[i]
		if i > c.ri || !c.paused {
			if st.PauseMs > 0 || st.WaitWritten > 0 {
				break
			}
		}
		n += len(st.Data)
		if i == c.ri {
			n -= c.off
		}
	}
	return n
}
