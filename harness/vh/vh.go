// Package vh holds the small amount of machinery shared by every /verif check: an evidence
// recorder (counts, class histogram, distinct non-trivial digests, samples), violation files
// (the shrunk failing case that becomes the replay file) and the known-findings table.
//
// Everything here is deterministic: no RNG, no wall clock in any decision.
package vh

import (
	"crypto/sha256"
	"encoding/hex"
	"encoding/json"
	"fmt"
	"os"
	"path/filepath"
	"sort"
	"strconv"
	"strings"
	"sync"
	"time"
)

// Env ---------------------------------------------------------------------------------------------

// Tier returns "quick" or "thorough".
func Tier() string {
	if os.Getenv("VERIF_TIER") == "thorough" {
		return "thorough"
	}
	return "quick"
}

// Thorough reports whether the thorough tier was requested.
func Thorough() bool { return Tier() == "thorough" }

// Pick returns q in the quick tier and th in the thorough tier.
func Pick(q, th int) int {
	if Thorough() {
		return th
	}
	return q
}

// Seed returns VERIF_SEED (0 remapped to 1).
func Seed() int64 {
	s, _ := strconv.ParseInt(os.Getenv("VERIF_SEED"), 10, 64)
	if s == 0 {
		s = 1
	}
	return s
}

// Shard / Shards describe the slice of an enumerated space this process is responsible for.
func Shard() (idx, n int) {
	idx, _ = strconv.Atoi(os.Getenv("VERIF_SHARD"))
	n, _ = strconv.Atoi(os.Getenv("VERIF_SHARDS"))
	if n <= 0 {
		n = 1
	}
	return idx % n, n
}

// Mine reports whether enumerated item i belongs to this shard.
func Mine(i int) bool {
	idx, n := Shard()
	return i%n == idx
}

// OutDir is where record / violation files go.
func OutDir() string {
	d := os.Getenv("VERIF_OUT")
	if d == "" {
		d = filepath.Join(os.TempDir(), "verif-out")
	}
	_ = os.MkdirAll(d, 0o755)
	return d
}

// ReplayFile returns the path passed with --replay (empty when generating).
func ReplayFile() string { return os.Getenv("VERIF_REPLAY") }

// Known findings -----------------------------------------------------------------------------------

type knownEntry struct {
	Property string `json:"property"`
	Key      string `json:"key"`
	What     string `json:"what"`
	Status   string `json:"status"` // "open" suppresses; "fixed" suppresses nothing
}

var (
	knownOnce sync.Once
	knownTab  map[string]knownEntry
)

func loadKnown() {
	knownTab = map[string]knownEntry{}
	p := os.Getenv("VERIF_KNOWN")
	if p == "" {
		return
	}
	b, err := os.ReadFile(p)
	if err != nil {
		return
	}
	var f struct {
		Findings []knownEntry `json:"findings"`
	}
	if json.Unmarshal(b, &f) != nil {
		return
	}
	for _, e := range f.Findings {
		if e.Status == "open" {
			knownTab[e.Property+"|"+e.Key] = e
		}
	}
}

// IsKnown reports whether (property, key) is listed as an open known finding.
func IsKnown(prop, key string) (string, bool) {
	knownOnce.Do(loadKnown)
	e, ok := knownTab[prop+"|"+key]
	return e.What, ok
}

// Recorder ----------------------------------------------------------------------------------------

// Rec accumulates evidence for one sub-check (one Go test function) of one property.
type Rec struct {
	mu        sync.Mutex
	Prop      string
	Sub       string
	Rule      string
	evals     int64
	nontriv   int64
	distinct  map[[8]byte]struct{}
	classes   map[string]int64
	samples   []any
	sampleCap int
	seen      int64
	exhaust   bool
	known     map[string]int64
	knownWhat map[string]string
	viol      int
	violFiles []string
	violKeys  []string
	notes     []string
	start     time.Time
	required  []string
	extra     map[string]any
}

// NewRec creates a recorder. rule explains generation and what non-trivial/distinct mean.
func NewRec(prop, sub, rule string) *Rec {
	return &Rec{Prop: prop, Sub: sub, Rule: rule, distinct: map[[8]byte]struct{}{}, classes: map[string]int64{},
		sampleCap: 6, known: map[string]int64{}, knownWhat: map[string]string{}, start: time.Now(), extra: map[string]any{}}
}

// Require names classes that must be non-empty at Flush, otherwise the run is "vacuous" (exit 2).
func (r *Rec) Require(classes ...string) { r.required = append(r.required, classes...) }

// SetExhaustive marks the sub-check as a complete enumeration of a finite space.
func (r *Rec) SetExhaustive(b bool) { r.exhaust = b }

// Note adds a free-text remark to the evidence.
func (r *Rec) Note(format string, a ...any) {
	r.mu.Lock()
	r.notes = append(r.notes, fmt.Sprintf(format, a...))
	r.mu.Unlock()
}

// Extra stores a measured extra key.
func (r *Rec) Extra(k string, v any) {
	r.mu.Lock()
	r.extra[k] = v
	r.mu.Unlock()
}

// Digest hashes any JSON-serialisable value.
func Digest(v any) [8]byte {
	var b []byte
	switch x := v.(type) {
	case []byte:
		b = x
	case string:
		b = []byte(x)
	default:
		b, _ = json.Marshal(v)
	}
	h := sha256.Sum256(b)
	var d [8]byte
	copy(d[:], h[:8])
	return d
}

// Case records one evaluated case. classes are histogram labels; nontrivial says whether the case is
// non-trivial by the sub-check's rule; digest identifies the case for distinct counting; sample is
// the case itself (kept only for a few).
func (r *Rec) Case(nontrivial bool, digest [8]byte, sample any, classes ...string) {
	r.mu.Lock()
	defer r.mu.Unlock()
	r.evals++
	for _, c := range classes {
		r.classes[c]++
	}
	if nontrivial {
		r.nontriv++
		if len(r.distinct) < 4_000_000 {
			r.distinct[digest] = struct{}{}
		}
	}
	r.seen++
	if sample != nil && (nontrivial || len(r.samples) == 0) {
		if len(r.samples) < r.sampleCap {
			r.samples = append(r.samples, sample)
		} else if nontrivial {
			// deterministic reservoir-like replacement: powers of two
			if r.nontriv&(r.nontriv-1) == 0 {
				r.samples[int(r.nontriv%int64(r.sampleCap))] = sample
			}
		}
	}
}

// Class bumps a histogram label without counting an evaluation.
func (r *Rec) Class(c string) {
	r.mu.Lock()
	r.classes[c]++
	r.mu.Unlock()
}

// ClassN adds n to a histogram label.
func (r *Rec) ClassN(c string, n int64) {
	r.mu.Lock()
	r.classes[c] += n
	r.mu.Unlock()
}

// Fataler is the part of testing.T / rapid.T the recorder needs.
type Fataler interface {
	Fatalf(format string, args ...any)
	Helper()
}

// Violation reports a property violation for the failing case `c` with root-cause key `key`.
// If (prop,key) is an open known finding it is only counted and false is returned (the caller
// carries on). Otherwise the case is written as the replay file and t.Fatalf is called.
func (r *Rec) Violation(t Fataler, key string, c any, format string, a ...any) bool {
	t.Helper()
	msg := fmt.Sprintf(format, a...)
	if what, ok := IsKnown(r.Prop, key); ok {
		r.mu.Lock()
		r.known[key]++
		r.knownWhat[key] = what
		r.mu.Unlock()
		return false
	}
	path := r.writeViolation(key, c, msg)
	t.Fatalf("VERIF-VIOLATION property=%s sub=%s key=%s replay=%s: %s", r.Prop, r.Sub, key, path, msg)
	return true
}

// ViolationNoFatal is Violation for places with no testing handle (goroutines); returns true if it
// is a new (not known) violation.
func (r *Rec) ViolationNoFatal(key string, c any, format string, a ...any) bool {
	msg := fmt.Sprintf(format, a...)
	if what, ok := IsKnown(r.Prop, key); ok {
		r.mu.Lock()
		r.known[key]++
		r.knownWhat[key] = what
		r.mu.Unlock()
		return false
	}
	r.writeViolation(key, c, msg)
	return true
}

func (r *Rec) writeViolation(key string, c any, msg string) string {
	r.mu.Lock()
	defer r.mu.Unlock()
	r.viol++
	// one file per (sub,key): rapid calls the property again while shrinking, so the file ends up
	// holding the minimal failing case.
	name := fmt.Sprintf("viol_%s_%s_%s.json", r.Prop, sanitize(r.Sub), sanitize(key))
	if idx, n := Shard(); n > 1 {
		// shards run in parallel: each writes its own file
		name = fmt.Sprintf("viol_%s_%s_%s_s%d.json", r.Prop, sanitize(r.Sub), sanitize(key), idx)
	}
	path := filepath.Join(OutDir(), name)
	tmp := path + ".tmp"
	doc := map[string]any{"property": r.Prop, "sub": r.Sub, "key": key, "message": msg, "case": c}
	b, err := json.MarshalIndent(doc, "", " ")
	if err != nil {
		b, _ = json.Marshal(map[string]any{"property": r.Prop, "sub": r.Sub, "key": key, "message": msg, "case": fmt.Sprintf("%+v", c)})
	}
	if os.WriteFile(tmp, b, 0o644) == nil {
		_ = os.Rename(tmp, path)
	}
	found := false
	for _, f := range r.violFiles {
		if f == path {
			found = true
		}
	}
	if !found {
		r.violFiles = append(r.violFiles, path)
		r.violKeys = append(r.violKeys, key)
	}
	return path
}

func sanitize(s string) string {
	var sb strings.Builder
	for _, c := range s {
		switch {
		case c >= 'a' && c <= 'z', c >= 'A' && c <= 'Z', c >= '0' && c <= '9', c == '-', c == '_', c == '.':
			sb.WriteRune(c)
		default:
			sb.WriteByte('_')
		}
	}
	out := sb.String()
	if len(out) > 80 {
		out = out[:80]
	}
	return out
}

// Flush writes the record file. Call with defer at the top of the test function.
func (r *Rec) Flush() {
	r.mu.Lock()
	defer r.mu.Unlock()
	var missing []string
	for _, c := range r.required {
		if r.classes[c] == 0 {
			missing = append(missing, c)
		}
	}
	sort.Strings(missing)
	known := []map[string]any{}
	keys := make([]string, 0, len(r.known))
	for k := range r.known {
		keys = append(keys, k)
	}
	sort.Strings(keys)
	for _, k := range keys {
		known = append(known, map[string]any{"key": k, "count": r.known[k], "what": r.knownWhat[k]})
	}
	idx, n := Shard()
	doc := map[string]any{
		"property":            r.Prop,
		"sub":                 r.Sub,
		"rule":                r.Rule,
		"evaluations":         r.evals,
		"nontrivial":          r.nontriv,
		"distinct_nontrivial": len(r.distinct),
		"classes":             r.classes,
		"samples":             r.samples,
		"exhaustive":          r.exhaust,
		"known":               known,
		"violations":          r.viol,
		"violation_files":     r.violFiles,
		"violation_keys":      r.violKeys,
		"missing_classes":     missing,
		"notes":               r.notes,
		"extra":               r.extra,
		"wall_s":              time.Since(r.start).Seconds(),
		"shard":               idx,
		"shards":              n,
	}
	b, err := json.Marshal(doc)
	if err != nil {
		doc["samples"] = []any{fmt.Sprintf("%+v", r.samples)}
		b, _ = json.Marshal(doc)
	}
	name := fmt.Sprintf("rec_%s_%s_%d.json", r.Prop, sanitize(r.Sub), idx)
	writeAtomic(filepath.Join(OutDir(), name), b)
	if n > 1 {
		// digests, so the driver can count distinct cases over all shards
		buf := make([]byte, 0, 8*len(r.distinct))
		for d := range r.distinct {
			buf = append(buf, d[:]...)
		}
		writeAtomic(filepath.Join(OutDir(), fmt.Sprintf("dig_%s_%s_%d.bin", r.Prop, sanitize(r.Sub), idx)), buf)
	}
}

// writeAtomic replaces path by a complete file or leaves it alone: a process that is killed while it
// flushes (a native fuzz worker at the end of its time) must not leave a truncated record behind
// (that happened once in a thorough sweep and turned a green run into exit 2).
func writeAtomic(path string, b []byte) {
	tmp := filepath.Join(filepath.Dir(path), fmt.Sprintf(".tmp_%d_%s", os.Getpid(), filepath.Base(path)))
	if err := os.WriteFile(tmp, b, 0o644); err != nil {
		_ = os.Remove(tmp)
		return
	}
	if err := os.Rename(tmp, path); err != nil {
		_ = os.Remove(tmp)
	}
}

// LoadReplay reads the "case" member of a violation file into v.
func LoadReplay(path string, v any) (sub, key string, err error) {
	b, err := os.ReadFile(path)
	if err != nil {
		return "", "", err
	}
	var doc struct {
		Sub  string          `json:"sub"`
		Key  string          `json:"key"`
		Case json.RawMessage `json:"case"`
	}
	if err = json.Unmarshal(b, &doc); err != nil {
		return "", "", err
	}
	return doc.Sub, doc.Key, json.Unmarshal(doc.Case, v)
}

// Hex is a []byte that serialises as hex (readable replay files).
type Hex []byte

func (h Hex) MarshalJSON() ([]byte, error) { return json.Marshal(hex.EncodeToString(h)) }
func (h *Hex) UnmarshalJSON(b []byte) error {
	var s string
	if err := json.Unmarshal(b, &s); err != nil {
		return err
	}
	d, err := hex.DecodeString(s)
	if err != nil {
		return err
	}
	*h = d
	return nil
}
