// Package c01ref is the independent reference implementation of the *published* Conjure derivation
// used by the C01 check (client and station derive the same phantom address, port and transport
// secrets). It is written from the algorithm descriptions (gotapdance v1.7.x / conjure wire
// behaviour), NOT by calling or copying /repo code, and uses the Go standard library only:
// HKDF (RFC 5869) is implemented here on top of crypto/hmac, the rejection sampler is implemented
// here, X25519 / P-256 come from crypto/ecdh, the Elligator-2 inverse map is done with math/big.
//
// Everything in this file is a pure function of its arguments (no RNG, no clock, no globals).
package c01ref

import (
	"crypto/aes"
	"crypto/cipher"
	"crypto/ecdh"
	"crypto/hmac"
	"crypto/sha256"
	"encoding/hex"
	"errors"
	"fmt"
	"io"
	"math/big"
	"net/netip"
)

// ---------------------------------------------------------------------------------------------
// HKDF-SHA256 (RFC 5869), streaming expand.

type hkdfStream struct {
	prk   []byte
	info  []byte
	prev  []byte
	ctr   int
	avail []byte
}

// HKDF returns the HKDF-SHA256 output stream for (secret, salt, info). A nil/empty salt is the
// RFC's string of HashLen zero bytes.
func HKDF(secret, salt, info []byte) io.Reader {
	if len(salt) == 0 {
		salt = make([]byte, sha256.Size)
	}
	ext := hmac.New(sha256.New, salt)
	ext.Write(secret)
	return &hkdfStream{prk: ext.Sum(nil), info: append([]byte(nil), info...)}
}

func (h *hkdfStream) Read(p []byte) (int, error) {
	n := 0
	for n < len(p) {
		if len(h.avail) == 0 {
			if h.ctr >= 255 {
				return n, errors.New("c01ref: hkdf stream exhausted")
			}
			h.ctr++
			m := hmac.New(sha256.New, h.prk)
			m.Write(h.prev)
			m.Write(h.info)
			m.Write([]byte{byte(h.ctr)})
			h.prev = m.Sum(nil)
			h.avail = h.prev
		}
		c := copy(p[n:], h.avail)
		h.avail = h.avail[c:]
		n += c
	}
	return n, nil
}

// HMAC is HMAC-SHA256(key, msg).
func HMAC(key []byte, msg []byte) []byte {
	m := hmac.New(sha256.New, key)
	m.Write(msg)
	return m.Sum(nil)
}

// RandInt draws a uniform integer in [0, max) from r by rejection sampling: read ceil(bits/8)
// bytes where bits is the bit length of max-1, clear the excess high bits of the first byte,
// interpret big endian, retry while >= max. (This is the sampling every deployed client performs;
// max must be > 0.)
func RandInt(r io.Reader, max *big.Int) (*big.Int, error) {
	if max.Sign() <= 0 {
		return nil, errors.New("c01ref: RandInt max <= 0")
	}
	top := new(big.Int).Sub(max, big.NewInt(1))
	bits := top.BitLen()
	if bits == 0 {
		return new(big.Int), nil
	}
	nb := (bits + 7) / 8
	hi := uint(bits % 8)
	if hi == 0 {
		hi = 8
	}
	buf := make([]byte, nb)
	for try := 0; try < 100000; try++ {
		if _, err := io.ReadFull(r, buf); err != nil {
			return nil, err
		}
		buf[0] &= byte((1 << hi) - 1)
		v := new(big.Int).SetBytes(buf)
		if v.Cmp(max) < 0 {
			return v, nil
		}
	}
	return nil, errors.New("c01ref: RandInt did not terminate")
}

// ---------------------------------------------------------------------------------------------
// Shared keys

const generalSalt = "conjureconjureconjureconjure"

// Keys derives the 16-byte ConjureSeed and the transport key stream from the shared secret for a
// client library version. Versions before 4 first draw (and drop) the 104 bytes that used to be the
// decoy-registrar keys (16+12+16+12+48).
func Keys(libver uint32, secret []byte) (seed []byte, transportStream io.Reader, err error) {
	s := HKDF(secret, []byte(generalSalt), nil)
	if libver < 4 {
		drop := make([]byte, 104)
		if _, err = io.ReadFull(s, drop); err != nil {
			return nil, nil, err
		}
	}
	seed = make([]byte, 16)
	if _, err = io.ReadFull(s, seed); err != nil {
		return nil, nil, err
	}
	return seed, s, nil
}

// ---------------------------------------------------------------------------------------------
// Phantom selection (client library version >= 2)

// Group is one weighted group of phantom subnets of a generation.
type Group struct {
	Weight    uint32   `json:"weight"`
	Randomize bool     `json:"randomize"`
	Subnets   []string `json:"subnets"`
}

// ErrNoAddress is returned when the seed-selected group holds no subnet of the requested family.
var ErrNoAddress = errors.New("c01ref: selected group has no address of the requested family")

// Phantom is the reference selection result.
type Phantom struct {
	IP        []byte // 4 or 16 bytes, full width
	Randomize bool   // the selected group's RandomizeDstPort
	GroupIdx  int    // index (in configuration order) of the selected group
	Tie       bool   // the selected weight occurs more than once in the configuration
}

// SelectGroup performs the weighted walk: groups ordered by ascending weight (stable: equal weights
// keep configuration order), r uniform in [0, sum of weights) from HKDF(seed, info
// "phantom-select-subnet"), first group for which the running r - weight drops below zero.
func SelectGroup(seed []byte, groups []Group) (int, error) {
	type ent struct {
		idx int
		w   uint32
	}
	var order []ent
	total := new(big.Int)
	for i, g := range groups {
		if len(g.Subnets) == 0 {
			// a group that lists no subnets takes no part in the choice, and neither does its weight
			// (deployed clients read the list from a protobuf, where "no subnets" is always nil)
			continue
		}
		order = append(order, ent{i, g.Weight})
		total.Add(total, big.NewInt(int64(g.Weight)))
	}
	if total.Sign() <= 0 {
		return -1, errors.New("c01ref: total weight is zero (selection undefined)")
	}
	// stable insertion sort, ascending weight
	for i := 1; i < len(order); i++ {
		for j := i; j > 0 && order[j].w < order[j-1].w; j-- {
			order[j], order[j-1] = order[j-1], order[j]
		}
	}
	r, err := RandInt(HKDF(seed, nil, []byte("phantom-select-subnet")), total)
	if err != nil {
		return -1, err
	}
	acc := new(big.Int).Set(r)
	for _, e := range order {
		acc.Sub(acc, big.NewInt(int64(e.w)))
		if acc.Sign() < 0 {
			return e.idx, nil
		}
	}
	return -1, errors.New("c01ref: weighted walk fell through")
}

// SelectPhantom is the reference for client library versions >= 2.
func SelectPhantom(seed []byte, groups []Group, v6 bool) (*Phantom, error) {
	gi, err := SelectGroup(seed, groups)
	if err != nil {
		return nil, err
	}
	g := groups[gi]
	type span struct {
		base *big.Int
		size *big.Int
		len  int
	}
	var spans []span
	total := new(big.Int)
	for _, s := range g.Subnets {
		p, err := netip.ParsePrefix(s)
		if err != nil {
			return nil, fmt.Errorf("c01ref: bad subnet %q: %v", s, err)
		}
		p = p.Masked()
		a := p.Addr()
		if a.Is4In6() {
			return nil, fmt.Errorf("c01ref: v4-mapped subnet %q not modelled", s)
		}
		if a.Is6() != v6 {
			continue
		}
		width := 32
		if v6 {
			width = 128
		}
		size := new(big.Int).Lsh(big.NewInt(1), uint(width-p.Bits()))
		spans = append(spans, span{base: new(big.Int).SetBytes(a.AsSlice()), size: size, len: width / 8})
		total.Add(total, size)
	}
	if total.Sign() == 0 {
		return nil, ErrNoAddress
	}
	id, err := RandInt(HKDF(seed, nil, []byte("phantom-addr-id")), total)
	if err != nil {
		return nil, err
	}
	tie := false
	for i, o := range groups {
		if i != gi && len(o.Subnets) != 0 && o.Weight == g.Weight {
			tie = true
		}
	}
	lo := new(big.Int)
	for _, sp := range spans {
		hi := new(big.Int).Add(lo, sp.size)
		if id.Cmp(lo) >= 0 && id.Cmp(hi) < 0 {
			off := new(big.Int).Sub(id, lo)
			addr := new(big.Int).Add(sp.base, off)
			out := make([]byte, sp.len)
			addr.FillBytes(out)
			return &Phantom{IP: out, Randomize: g.Randomize, GroupIdx: gi, Tie: tie}, nil
		}
		lo = hi
	}
	return nil, errors.New("c01ref: address id outside every span")
}

// ---------------------------------------------------------------------------------------------
// Destination port

// Transport names used by the reference.
const (
	Min    = "min"
	Obfs4  = "obfs4"
	Prefix = "prefix"
	DTLS   = "dtls"
)

// PrefixSpec is the published prefix table (pkg/transports/wrapping/prefix/README.md).
type PrefixSpec struct {
	Bytes []byte
	Port  uint16
}

// Prefixes maps prefix id -> first bytes on the wire and default destination port.
var Prefixes = map[int32]PrefixSpec{
	0: {[]byte{}, 443},
	1: {[]byte("GET / HTTP/1.1\r\n"), 80},
	2: {[]byte("POST / HTTP/1.1\r\n"), 80},
	3: {[]byte("HTTP/1.1 200\r\n"), 80},
	4: {[]byte("\x16\x03\x03\x40\x00\x01"), 443},
	5: {[]byte("\x16\x03\x03\x40\x00\x02\r\n"), 443},
	6: {[]byte("\x15\x03\x01\x00\x02"), 443},
	7: {[]byte("\x15\x03\x02\x00\x02"), 443},
	8: {[]byte("\x05\xDC\x5F\xE0\x01\x20"), 53},
	9: {[]byte("SSH-2.0-OpenSSH_8.9p1"), 22},
}

// portRange returns [lo, hi) for a randomising transport.
func portRange(transport string) (int64, int64) {
	if transport == Obfs4 {
		return 22, 65535
	}
	return 1024, 65535
}

// RandomPort is the seeded port in the transport's range.
func RandomPort(transport string, seed []byte) (uint16, error) {
	lo, hi := portRange(transport)
	v, err := RandInt(HKDF(seed, nil, []byte("phantom-select-dst-port")), big.NewInt(hi-lo))
	if err != nil {
		return 0, err
	}
	return uint16(v.Int64() + lo), nil
}

// Port is the destination port of the phantom connection: a seeded port only if the client library
// is new enough (>= 3), the selected subnet group allows it and the client asked for it; 443 for
// old libraries and non-randomising subnets; otherwise the transport's fixed port (443, or the
// prefix's own default port).
func Port(libver uint32, transport string, prefixID int32, asked bool, subnetAllows bool, seed []byte) (uint16, error) {
	if libver < 3 || !subnetAllows {
		return 443, nil
	}
	if asked {
		return RandomPort(transport, seed)
	}
	if transport == Prefix {
		sp, ok := Prefixes[prefixID]
		if !ok {
			return 0, fmt.Errorf("c01ref: unknown prefix %d", prefixID)
		}
		return sp.Port, nil
	}
	return 443, nil
}

// ---------------------------------------------------------------------------------------------
// Connection tags / identifiers

// Tag is the HMAC connection tag of the tag-based transports.
func Tag(transport string, secret []byte) []byte {
	switch transport {
	case Min:
		return HMAC(secret, []byte("MinTrasportHMACString"))
	case Prefix:
		return HMAC(secret, []byte("PrefixTransportHMACString"))
	case DTLS:
		return HMAC(secret, []byte("dtlsTrasportHMACString"))
	}
	return nil
}

// Obfs4Keys are the node keys both sides draw from the transport stream: 32 bytes clamped as an
// X25519 scalar (public key = scalar * base point), then a 20-byte node id.
type Obfs4Keys struct {
	Private []byte
	Public  []byte
	NodeID  []byte
}

// Obfs4Draw draws the obfs4 keys from the transport stream.
func Obfs4Draw(stream io.Reader) (*Obfs4Keys, error) {
	priv := make([]byte, 32)
	if _, err := io.ReadFull(stream, priv); err != nil {
		return nil, err
	}
	priv[0] &= 248
	priv[31] &= 127
	priv[31] |= 64
	k, err := ecdh.X25519().NewPrivateKey(priv)
	if err != nil {
		return nil, err
	}
	id := make([]byte, 20)
	if _, err := io.ReadFull(stream, id); err != nil {
		return nil, err
	}
	return &Obfs4Keys{Private: priv, Public: k.PublicKey().Bytes(), NodeID: id}, nil
}

// Obfs4Mark is the 16-byte mark an obfs4 client places after its padding:
// HMAC-SHA256(public || nodeID, representative)[:16].
func Obfs4Mark(k *Obfs4Keys, representative []byte) []byte {
	key := append(append([]byte(nil), k.Public...), k.NodeID...)
	return HMAC(key, representative)[:16]
}

// ---------------------------------------------------------------------------------------------
// Prefix tag obfuscation (Elligator-2 representative || AES-128-CTR(tag))

var (
	p25519 = new(big.Int).Sub(new(big.Int).Lsh(big.NewInt(1), 255), big.NewInt(19))
	a25519 = big.NewInt(486662)
)

// elligatorToU maps a uniform representative to the Montgomery u coordinate (Elligator 2).
func elligatorToU(rep []byte) []byte {
	le := make([]byte, 32)
	copy(le, rep)
	le[31] &= 0x3f
	// little endian -> big.Int
	be := make([]byte, 32)
	for i := range le {
		be[31-i] = le[i]
	}
	r := new(big.Int).SetBytes(be)
	p := p25519
	// v = -A / (1 + 2 r^2)
	d := new(big.Int).Mul(r, r)
	d.Lsh(d, 1).Add(d, big.NewInt(1)).Mod(d, p)
	dinv := new(big.Int).ModInverse(d, p)
	if dinv == nil {
		dinv = new(big.Int)
	}
	v := new(big.Int).Mul(a25519, dinv)
	v.Neg(v).Mod(v, p)
	// e = legendre(v^3 + A v^2 + v)
	v2 := new(big.Int).Mul(v, v)
	v2.Mod(v2, p)
	v3 := new(big.Int).Mul(v2, v)
	t := new(big.Int).Mul(a25519, v2)
	t.Add(t, v3).Add(t, v).Mod(t, p)
	exp := new(big.Int).Rsh(new(big.Int).Sub(p, big.NewInt(1)), 1)
	e := new(big.Int).Exp(t, exp, p)
	u := new(big.Int).Set(v)
	if e.Cmp(big.NewInt(1)) != 0 && e.Sign() != 0 {
		// non-square: u = -v - A
		u.Neg(v).Sub(u, a25519).Mod(u, p)
	}
	ub := make([]byte, 32)
	u.FillBytes(ub)
	out := make([]byte, 32)
	for i := range ub {
		out[31-i] = ub[i]
	}
	return out
}

// RevealCTR recovers the plain tag from the 64 bytes a prefix client sends after its prefix:
// representative(32) || AES-128-CTR_{k,iv}(tag), k||iv = SHA-256(X25519(stationPriv, pub(representative))).
func RevealCTR(stationPriv []byte, obfuscated []byte) ([]byte, error) {
	if len(obfuscated) < 32 {
		return nil, errors.New("c01ref: obfuscated tag too short")
	}
	sk, err := ecdh.X25519().NewPrivateKey(stationPriv)
	if err != nil {
		return nil, err
	}
	pk, err := ecdh.X25519().NewPublicKey(elligatorToU(obfuscated[:32]))
	if err != nil {
		return nil, err
	}
	ss, err := sk.ECDH(pk)
	if err != nil {
		return nil, err
	}
	h := sha256.Sum256(ss)
	blk, err := aes.NewCipher(h[:16])
	if err != nil {
		return nil, err
	}
	out := make([]byte, len(obfuscated)-32)
	cipher.NewCTR(blk, h[16:32]).XORKeyStream(out, obfuscated[32:])
	return out, nil
}

// ---------------------------------------------------------------------------------------------
// DTLS credentials

// DTLSCert is the deterministic part of one seed-derived certificate.
type DTLSCert struct {
	PublicKey string `json:"public_key"` // hex of the uncompressed P-256 point 04||X||Y
	Serial    string `json:"serial"`     // decimal
	CN        string `json:"cn"`
}

// DTLSCreds are the credentials both DTLS ends derive from the shared secret.
type DTLSCreds struct {
	HelloRandom string   `json:"hello_random"` // hex, 28 bytes (the random part of a DTLS hello random)
	Client      DTLSCert `json:"client"`
	Server      DTLSCert `json:"server"`
}

func dtlsCert(stream io.Reader) (DTLSCert, error) {
	var c DTLSCert
	// Go <=1.19 ecdsa.GenerateKey: (bitlen(N)/8 + 8) bytes, d = (x mod (N-1)) + 1
	n, _ := new(big.Int).SetString("ffffffff00000000ffffffffffffffffbce6faada7179e84f3b9cac2fc632551", 16)
	b := make([]byte, n.BitLen()/8+8)
	if _, err := io.ReadFull(stream, b); err != nil {
		return c, err
	}
	d := new(big.Int).SetBytes(b)
	d.Mod(d, new(big.Int).Sub(n, big.NewInt(1)))
	d.Add(d, big.NewInt(1))
	db := make([]byte, 32)
	d.FillBytes(db)
	k, err := ecdh.P256().NewPrivateKey(db)
	if err != nil {
		return c, err
	}
	c.PublicKey = hex.EncodeToString(k.PublicKey().Bytes())
	max := new(big.Int).Lsh(big.NewInt(1), 130)
	max.Sub(max, big.NewInt(1))
	serial, err := RandInt(stream, max)
	if err != nil {
		return c, err
	}
	c.Serial = serial.String()
	cn := make([]byte, 8)
	if _, err := io.ReadFull(stream, cn); err != nil {
		return c, err
	}
	c.CN = hex.EncodeToString(cn)
	return c, nil
}

// DTLSDerive derives the DTLS credentials from the shared secret (the DTLS "PSK").
func DTLSDerive(secret []byte) (*DTLSCreds, error) {
	out := &DTLSCreds{}
	hr := make([]byte, 28)
	if _, err := io.ReadFull(HKDF(secret, []byte("clientHelloRandomFromSeed"), nil), hr); err != nil {
		return nil, err
	}
	out.HelloRandom = hex.EncodeToString(hr)
	s := HKDF(secret, []byte("certsFromSeed"), nil)
	var err error
	if out.Client, err = dtlsCert(s); err != nil {
		return nil, err
	}
	if out.Server, err = dtlsCert(s); err != nil {
		return nil, err
	}
	return out, nil
}
