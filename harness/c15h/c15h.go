// Package c15h holds the few helpers shared by the in-package C15 checks (which live in five
// different packages of the code under test and therefore cannot share test code directly).
//
// Everything here is deterministic: no RNG, no wall clock.
package c15h

import (
	"fmt"
	"runtime/debug"
	"sort"
	"strings"
	"testing"

	"pgregory.net/rapid"
)

// Expand returns n bytes that are a pure function of (seed, n). It lets a case describe a
// 65 536-byte payload by two integers instead of 128 KiB of hex. Seeds 0 and 1 give the constant
// fills 0x00 and 0xff (hostile constants for length prefixes); other seeds give a xorshift stream.
func Expand(seed uint64, n int) []byte {
	out := make([]byte, n)
	switch seed {
	case 0:
		return out
	case 1:
		for i := range out {
			out[i] = 0xff
		}
		return out
	}
	x := seed*0x9E3779B97F4A7C15 + 0x632BE59BD9B4E019
	if x == 0 {
		x = 1
	}
	for i := 0; i < n; i += 8 {
		x ^= x << 13
		x ^= x >> 7
		x ^= x << 17
		v := x
		for j := i; j < i+8 && j < n; j++ {
			out[j] = byte(v)
			v >>= 8
		}
	}
	return out
}

// Lens returns a generator of lengths in [0,max] that is biased towards the given representation
// limits (each limit l contributes l-2 … l+2) and towards small values, with a uniform tail.
func Lens(max int, limits ...int) *rapid.Generator[int] {
	var near []int
	seen := map[int]bool{}
	for _, l := range limits {
		for d := -2; d <= 2; d++ {
			v := l + d
			if v >= 0 && v <= max && !seen[v] {
				seen[v] = true
				near = append(near, v)
			}
		}
	}
	sort.Ints(near)
	small := max
	if small > 300 {
		small = 300
	}
	gens := []*rapid.Generator[int]{rapid.IntRange(0, small), rapid.IntRange(0, max)}
	if len(near) > 0 {
		// listed twice: about half of all draws sit within two bytes of a limit
		gens = append(gens, rapid.SampledFrom(near), rapid.SampledFrom(near))
	}
	return rapid.OneOf(gens...)
}

// Near reports whether n >= 1 lies within w of one of the limits.
func Near(n, w int, limits ...int) bool {
	if n < 1 {
		return false
	}
	for _, l := range limits {
		if n >= l-w && n <= l+w {
			return true
		}
	}
	return false
}

// Seeds draws a fill seed: the two constant fills now and then, otherwise a random stream.
func Seeds() *rapid.Generator[uint64] {
	return rapid.OneOf(rapid.Uint64Range(0, 1), rapid.Uint64Range(2, 1<<62), rapid.Uint64Range(2, 1<<62), rapid.Uint64Range(2, 1<<62))
}

// Catch runs f and reports a panic instead of propagating it.
func Catch(f func()) (panicked bool, what string) {
	defer func() {
		if r := recover(); r != nil {
			panicked = true
			st := string(debug.Stack())
			// keep the frames below the panic, shortened
			if i := strings.Index(st, "panic("); i >= 0 {
				st = st[i:]
			}
			if len(st) > 1200 {
				st = st[:1200]
			}
			what = fmt.Sprintf("%v\n%s", r, st)
		}
	}()
	f()
	return false, ""
}

// FirstDiff describes where two byte strings first differ (for messages).
func FirstDiff(a, b []byte) string {
	n := len(a)
	if len(b) < n {
		n = len(b)
	}
	for i := 0; i < n; i++ {
		if a[i] != b[i] {
			return fmt.Sprintf("lengths %d/%d, first difference at byte %d (%#02x vs %#02x)", len(a), len(b), i, a[i], b[i])
		}
	}
	if len(a) != len(b) {
		return fmt.Sprintf("lengths %d/%d, common prefix equal", len(a), len(b))
	}
	return "equal"
}

// Soft is a vh.Fataler for enumerated sub-checks: a violation marks the test as failed (the message,
// including its VERIF-VIOLATION marker, is logged) but the enumeration carries on, so that one run
// reports every distinct root cause instead of only the first one.
type Soft struct {
	T      testing.TB
	Failed bool
}

func (s *Soft) Fatalf(format string, args ...any) {
	s.Failed = true
	s.T.Errorf(format, args...)
}

func (s *Soft) Helper() {}

// ShrinkLen is the enumeration's stand-in for rapid's shrinker: given a failing length l it returns
// the smallest length in [0, l] for which the (side-effect free) predicate fails. Every shard of an
// enumerated sub-check thereby reports the same minimal case.
func ShrinkLen(l int, fails func(int) bool) int {
	for n := 0; n < l; n++ {
		if fails(n) {
			return n
		}
	}
	return l
}

// CaseKinds names the case transformations a third party may apply to a query name in transit (DNS
// names are case-insensitive; recursive resolvers with 0x20 randomisation do exactly this).
var CaseKinds = []string{"as-sent", "upper", "lower", "0x20", "domain-only", "data-only"}

// Recase rewrites, in place, the letter case of the labels of a name whose last nDomain labels are
// the base domain: kind 0 nothing, 1 all upper, 2 all lower, 3 random per letter, 4 only the base
// domain (random per letter; all upper for even seeds), 5 only the labels in front of it (likewise).
// The random choices are a pure function of seed.
func Recase(labels [][]byte, nDomain, kind int, seed uint64) {
	total := 0
	for _, l := range labels {
		total += len(l)
	}
	bits := Expand(seed|2, total)
	pos := 0
	for i, l := range labels {
		isDomain := i >= len(labels)-nDomain
		for j, b := range l {
			r := bits[pos]&1 == 1
			pos++
			if !('a' <= b && b <= 'z' || 'A' <= b && b <= 'Z') {
				continue
			}
			up := b &^ 0x20
			lo := b | 0x20
			pick := func(random bool) byte {
				if !random || r {
					return up
				}
				return lo
			}
			switch kind {
			case 1:
				l[j] = up
			case 2:
				l[j] = lo
			case 3:
				l[j] = pick(true)
			case 4:
				if isDomain {
					l[j] = pick(seed%2 == 1)
				}
			case 5:
				if !isDomain {
					l[j] = pick(seed%2 == 1)
				}
			}
		}
	}
}

// RecaseQuestion applies Recase to the (uncompressed) first question name of a DNS message in wire
// format, in place. It returns false and changes nothing if the bytes are not such a message.
func RecaseQuestion(msg []byte, nDomain, kind int, seed uint64) bool {
	if len(msg) < 13 || msg[4] != 0 || msg[5] != 1 {
		return false
	}
	var labels [][]byte
	for p := 12; ; {
		if p >= len(msg) {
			return false
		}
		n := int(msg[p])
		if n == 0 {
			break
		}
		if n > 63 || p+1+n > len(msg) {
			return false
		}
		labels = append(labels, msg[p+1:p+1+n])
		p += 1 + n
	}
	if nDomain > len(labels) {
		return false
	}
	Recase(labels, nDomain, kind, seed)
	return true
}
