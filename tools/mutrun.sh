#!/bin/bash
# usage: mutrun.sh <PID> <name> <patchfile|-e 'python-snippet'>   — applies a patch in a scratch worktree and runs the quick check there
# The python snippet receives variable R (worktree root) and must edit files in place.
set -u
PID=$1; NAME=$2; shift 2
WT=/tmp/mut-$PID-$NAME-$$
git -C /repo worktree add -q --detach $WT HEAD || exit 3
if [ "$1" = "-e" ]; then
  R=$WT python3 -c "import os,re; R=os.environ['R']
def sub(path, old, new, count=1):
    p=os.path.join(R,path); s=open(p).read()
    assert old in s, 'pattern not found in '+path+': '+old[:60]
    s=s.replace(old,new,count); open(p,'w').write(s)
$2" || { git -C /repo worktree remove --force $WT; exit 3; }
else
  git -C $WT apply "$1" || { git -C /repo worktree remove --force $WT; exit 3; }
fi
(cd $WT && git diff --stat | tail -1)
# must still compile
cd /verif && VERIF_REPO=$WT ./vcheck $PID ${TIER:+--tier $TIER} 2>&1 | tail -${TAILN:-6}
rc=${PIPESTATUS[0]}
git -C /repo worktree remove --force $WT
rm -rf /verif/.work/${PID}_$(python3 -c "import hashlib,sys;print(hashlib.sha1(sys.argv[1].encode()).hexdigest()[:6])" $WT) /verif/.work/altwork_$(python3 -c "import hashlib,sys;print(hashlib.sha1(sys.argv[1].encode()).hexdigest()[:10])" $WT)
H=$(python3 -c "import hashlib,sys;print(hashlib.sha1(sys.argv[1].encode()).hexdigest()[:10])" $WT)
rm -f /verif/.build/*_${H:0:6}.test /verif/.build/*_${H:0:6}_*.test /verif/.build/overlay_*_${H}.json
echo "== mutant $NAME on $PID: rc=$rc"
