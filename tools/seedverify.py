#!/usr/bin/env python3
"""seedverify.py <seed-out-dir> <PID> <k> [--check-rc N --check-note TEXT]

Confirms a seeded change independently in a scratch worktree of /repo's HEAD:
 1. patch applies, tree builds;
 2. the demonstration FAILS with the change and PASSES without it;
 3. the existing tests of the touched packages still pass with the change (known pre-existing
    failures ignored: TestConjureLibConfigResolveBlocklisted; TestConcurrentProxy is load-sensitive);
then stores it as /verif/seeded/<PID>-<k>/ (patch.diff, demo, meta.json with a `verification` block).
Nothing is ever applied to /repo itself.
"""
import json, os, re, shutil, subprocess, sys, time

VERIF = os.path.dirname(os.path.dirname(os.path.abspath(__file__)))
ENV = dict(os.environ, GOFLAGS="", GOPROXY="off", GOSUMDB="off", GOTOOLCHAIN="local")
ENV.pop("GOWORK", None)


def sh(cmd, cwd, timeout=1500):
    p = subprocess.run(cmd, shell=True, cwd=cwd, env=ENV, stdout=subprocess.PIPE, stderr=subprocess.STDOUT, text=True, errors="replace", timeout=timeout)
    return p.returncode, p.stdout


def main():
    src, pid, k = sys.argv[1], sys.argv[2], sys.argv[3]
    extra = {}
    rnd = ""
    a = sys.argv[4:]
    while a:
        if a[0] == "--check-rc":
            extra["check_exit_code"] = int(a[1]); a = a[2:]
        elif a[0] == "--check-note":
            extra["check_note"] = a[1]; a = a[2:]
        elif a[0] == "--round":
            rnd = a[1]; a = a[2:]
        else:
            a = a[1:]
    d = os.path.join(src, pid, k)
    meta = json.load(open(os.path.join(d, "meta.json")))
    demos = [f for f in os.listdir(d) if f.endswith(".go")]
    cmd = meta.get("demo_cmd", "")
    # package dir of the demo
    if meta.get("demo_files"):
        df = meta["demo_files"][0]
        m1 = re.search(r"copy (?:in)?to ([\w/\-\.]+)", df)
        pkgdir = m1.group(1).rstrip("/") if m1 else os.path.dirname(df.split()[0])
        if not pkgdir:
            meta = dict(meta); meta.pop("demo_files")
    elif "cd cmd/application" in cmd or "cmd/application" in cmd and "./pkg" not in cmd:
        pkgdir = "cmd/application"
    else:
        m = re.search(r"(\./pkg/[\w/\-]+|\./internal[\w/\-]*|\./cmd/[\w/\-]+)", cmd)
        pkgdir = m.group(1)[2:].rstrip("/") if m else None
    m0 = re.search(r"cd (pkg/[\w/\-]+|cmd/[\w/\-]+|internal[\w/\-]*)", cmd)
    if m0 and not meta.get("demo_files"):
        pkgdir = m0.group(1).rstrip("/")
    if not pkgdir and meta.get("files_changed"):
        pkgdir = os.path.dirname(meta["files_changed"][0])
    if not pkgdir:
        print("cannot determine demo package from", cmd); return 2
    m = re.search(r"-run[ =]+'?\"?([\w|^$()]+)", cmd)
    runre = m.group(1) if m else "TestSeedDemo"
    wt = "/tmp/seedverify-%s-%s-%d" % (pid, k, os.getpid())
    rc, out = sh("git -C /repo worktree add -q --detach %s HEAD" % wt, "/")
    if rc:
        print(out); return 2
    res = {"repo_head": subprocess.check_output(["git", "-C", "/repo", "rev-parse", "--short", "HEAD"], text=True).strip(),
           "at": time.strftime("%Y-%m-%dT%H:%M:%SZ", time.gmtime())}
    try:
        rc, out = sh("git apply %s" % os.path.join(d, "patch.diff"), wt)
        res["patch_applies"] = rc == 0
        if rc:
            print("patch does not apply:", out); return 1
        def pkgname(path):
            for line in open(path, errors="replace"):
                if line.startswith("package "):
                    return line.split()[1]
            return ""
        want = ""
        for f in sorted(os.listdir(os.path.join(wt, pkgdir))):
            if f.endswith(".go"):
                want = pkgname(os.path.join(wt, pkgdir, f))
                break
        for f in demos:
            if want and pkgname(os.path.join(d, f)).replace("_test", "") != want.replace("_test", ""):
                continue  # a supporting demo that belongs to another package
            shutil.copy(os.path.join(d, f), os.path.join(wt, pkgdir, f))
        moddir = "cmd/application" if pkgdir.startswith("cmd/application") else ("cmd/registration-server" if pkgdir.startswith("cmd/registration-server") else "")
        rel = "./" + os.path.relpath(pkgdir, moddir or ".")
        cwd = os.path.join(wt, moddir)
        rc, out = sh("go build ./...", cwd)
        res["builds"] = rc == 0
        race = " -race" if " -race" in cmd.split("#")[0] else ""
        democmd = "go test -vet=off%s -count=1 -run '%s' %s" % (race, runre, rel)
        rc_with, out_with = sh(democmd, cwd)
        res["demo_fails_with_change"] = rc_with != 0
        # existing tests of touched packages with the change
        touched = sorted({os.path.dirname(f) for f in meta.get("files_changed", [])} | {pkgdir})
        ok_existing = True
        notes = []
        for t in touched:
            tmod = "cmd/application" if t.startswith("cmd/application") else ("cmd/registration-server" if t.startswith("cmd/registration-server") else "")
            trel = "./" + os.path.relpath(t, tmod or ".")
            rc, out = sh("go test -vet=off -count=1 -skip 'TestSeed|TestConjureLibConfigResolveBlocklisted|TestConcurrentProxy|TestZMQ|TestZmq' %s" % trel, os.path.join(wt, tmod))
            if rc:
                ok_existing = False
                notes.append("%s: %s" % (t, out[-600:]))
        res["existing_tests_pass_with_change"] = ok_existing
        rc, out = sh("git apply -R %s" % os.path.join(d, "patch.diff"), wt)
        rc_without, out_without = sh(democmd, cwd)
        res["demo_passes_without_change"] = rc_without == 0
        res["demo_cmd_used"] = democmd + "  (in " + (moddir or ".") + ")"
        if notes:
            res["notes"] = notes
        if not res["demo_passes_without_change"]:
            res["demo_output_without"] = out_without[-800:]
        if not res["demo_fails_with_change"]:
            res["demo_output_with"] = out_with[-800:]
    finally:
        sh("git -C /repo worktree remove --force %s" % wt, "/")
    res.update(extra)
    good = all(res.get(x) for x in ("patch_applies", "builds", "demo_fails_with_change", "demo_passes_without_change", "existing_tests_pass_with_change"))
    res["confirmed"] = good
    print(json.dumps(res, indent=1))
    if good:
        dst = os.path.join(VERIF, "seeded", "%s-%s%s" % (pid, (rnd + "-") if rnd else "", k))
        os.makedirs(dst, exist_ok=True)
        shutil.copy(os.path.join(d, "patch.diff"), dst)
        for f in demos:
            shutil.copy(os.path.join(d, f), os.path.join(dst, f + ".txt"))  # .txt: never compiled by accident
        meta["verification"] = res
        json.dump(meta, open(os.path.join(dst, "meta.json"), "w"), indent=1)
    return 0 if good else 1


if __name__ == "__main__":
    sys.exit(main())
