#!/usr/bin/env python3
"""seedmark.py <seed-dir-name> <check_exit_code> <history text> [--caught-by ID]
Records the outcome of re-running the quick check against a stored seeded change."""
import json, os, sys
V = os.path.dirname(os.path.dirname(os.path.abspath(__file__)))
name, rc, hist = sys.argv[1], int(sys.argv[2]), sys.argv[3]
p = os.path.join(V, "seeded", name, "meta.json")
m = json.load(open(p))
v = m.setdefault("verification", {})
v["check_exit_code"] = rc
v["history"] = hist
if "--caught-by" in sys.argv:
    v["caught_by"] = sys.argv[sys.argv.index("--caught-by") + 1]
json.dump(m, open(p, "w"), indent=1)
print(name, rc)
