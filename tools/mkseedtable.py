#!/usr/bin/env python3
"""Rewrites the '<!-- SEEDED-TABLE -->' section of DESIGN.md from /verif/seeded/*/meta.json."""
import json, os, re
V = os.path.dirname(os.path.dirname(os.path.abspath(__file__)))
rows = []
for d in sorted(os.listdir(os.path.join(V, "seeded"))):
    p = os.path.join(V, "seeded", d, "meta.json")
    if not os.path.exists(p):
        continue
    m = json.load(open(p))
    v = m.get("verification", {})
    s = m.get("summary", "").replace("|", "/").replace("\n", " ")
    if len(s) > 170:
        s = s[:167] + "..."
    hist = v.get("history", "caught as built")
    if len(hist) > 230:
        hist = hist[:227] + "..."
    res = "caught" if v.get("check_exit_code") == 1 else ("MISSED" if v.get("check_exit_code") == 0 else "?")
    if v.get("retired"):
        res = "retired"
        hist = (v["retired"] + " Before that: " + hist)
        if len(hist) > 330:
            hist = hist[:327] + "..."
    rows.append("| %s | %s | %s | %s |" % (d, s, res, hist.replace("|", "/")))
tab = "\n".join(["| seed | change | quick check | note |", "|---|---|---|---|"] + rows)
p = os.path.join(V, "DESIGN.md")
s = open(p).read()
new = "<!-- SEEDED-TABLE -->\n" + tab + "\n<!-- /SEEDED-TABLE -->"
if "<!-- SEEDED-TABLE -->" in s:
    s = re.sub(r"<!-- SEEDED-TABLE -->.*?<!-- /SEEDED-TABLE -->", lambda _: new, s, flags=re.S)
else:
    s += "\n" + new + "\n"
open(p, "w").write(s)
print(len(rows), "rows")
