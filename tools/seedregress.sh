#!/bin/bash
# usage: seedregress.sh [ID ...]   — runs the quick check of each property against every stored seeded
# change of that property (scratch worktrees, /repo untouched) and prints one line per seed.
# A stored seed is expected to give rc=1 (with the check named in meta.json verification.caught_by when
# the change falls into another property's domain). Four properties run in parallel; seeds of one property run
# one after another (they share .work/<ID>).
cd /verif
IDS=("$@"); [ ${#IDS[@]} -eq 0 ] && IDS=($(cat READY))
OUT=${OUT:-/tmp/seedregress.$$}; mkdir -p $OUT
one() {
 ID=$1
 for d in /verif/seeded/$ID-*; do
  [ -f $d/patch.diff ] || continue
  k=${d##*/}
  if python3 -c "import json,sys;sys.exit(0 if json.load(open(sys.argv[1])).get('verification',{}).get('retired') else 1)" $d/meta.json; then echo "$k retired"; continue; fi
  BY=$(python3 -c "import json,sys;print(json.load(open(sys.argv[1])).get('verification',{}).get('caught_by',sys.argv[2]))" $d/meta.json $ID)
  TAILN=3 tools/mutrun.sh $BY sr$$ $d/patch.diff > $OUT/$k.log 2>&1
  echo "$k $(tail -1 $OUT/$k.log | sed 's/.*: //')"
 done
}
export -f one; export OUT
printf '%s\n' "${IDS[@]}" | xargs -P ${JOBS:-4} -I{} bash -c 'one {}'
